"""Self-validation corpus: edits (file, old, new) against /repo.  Mutants must be reported by the
property's rules (expect = substring of a violation key); refactors must leave the listed
properties silent."""

T = "src/types.rs"
S = "src/shell.rs"
C = "src/core.rs"
E = "src/execute.rs"
P = "src/parsers/parser_line.rs"
J = "src/jobc.rs"
M = "src/main.rs"
TL = "src/tools.rs"

MUTANTS = []
REFACTORS = []


def mut(prop, name, expect, what, *edits):
    MUTANTS.append({"prop": prop, "name": name, "expect": expect, "what": what, "edits": list(edits)})


def ref(name, props, what, *edits):
    REFACTORS.append({"name": name, "props": props, "what": what, "edits": list(edits)})


# ------------------------------------------------------------------ C01
mut("C01", "pipe-ignores-tag", "split_tokens_by_pipes", "quoted | splits the pipeline",
    (T, 'if sep.is_empty() && value == "|" {', 'if value == "|" {'))
mut("C01", "redirect-ignores-tag", "tokens_to_redirections", "quoted > acts as a redirection",
    (P, '''        if !sep.is_empty() && !to_be_continued {
            tokens_new.push(token.clone());
            continue;
        }
''', ''))
mut("C01", "glob-flipped-guard", "expand_glob", "glob expands quoted tokens only",
    (S, "if !sep.is_empty() || !needs_globbing(text) {", "if sep.is_empty() || !needs_globbing(text) {"))
mut("C01", "argv-skip", "execve-argv", "argv chain drops an argument",
    (C, '''                .tokens
                .iter()
                .map(|x| CString::new(x.1.as_str()).expect("CString error"))''',
     '''                .tokens
                .iter()
                .skip(1)
                .map(|x| CString::new(x.1.as_str()).expect("CString error"))'''))
mut("C01", "background-ignores-tag", "from_line", "quoted & backgrounds the line",
    (T, 'if len > 1 && tokens[len - 1].0.is_empty() && tokens[len - 1].1 == "&" {',
     'if len > 1 && tokens[len - 1].1 == "&" {'))
mut("C01", "here-string-ignores-tag", "from_tokens", "quoted <<< acts as here-string",
    (T, 'if let Some(idx) = tokens_new.iter().position(|x| x.0.is_empty() && x.1 == "<<<") {',
     'if let Some(idx) = tokens_new.iter().position(|x| x.1 == "<<<") {'))
mut("C01", "bangbang-single-quote", "extend_bangbang", "!! expands inside single quotes",
    (TL, '''if re_contains(&token, r"!!") && sep != "'" {''', '''if re_contains(&token, r"!!") {'''))

# ------------------------------------------------------------------ C02
mut("C02", "parent-keeps-write-end", "P1 close", "parent never closes the write end: reader never sees EOF",
    (C, '''            if idx_cmd < pipes_count {
                let fds = pipes[idx_cmd];
                libs::close(fds.1);
            }
            if idx_cmd > 0 {
                // close pipe end only after dupped in the child''',
     '''            if idx_cmd > 0 {
                // close pipe end only after dupped in the child'''))
mut("C02", "status-of-first", "status-write", "pipeline status taken from the first pid",
    (J, "    let pid_last = pids.last().unwrap();", "    let pid_last = pids.first().unwrap();"))
mut("C02", "count-gt", "exit|", "wait loop exits one event late",
    (J, "        if count_waited >= count_child {", "        if count_waited > count_child {"))
mut("C02", "too-many-pipes", "creation-bound", "one pipe too many is created",
    (C, "    for _ in 0..length - 1 {", "    for _ in 0..length {"))
mut("C02", "push-without-bg-test", "push-guard", "background children are waited for",
    (C, "        if child_id > 0 && !cl.background {", "        if child_id > 0 {"))
mut("C02", "child-no-dup2-stdin", "K2a", "later stages do not read from the pipe",
    (C, '''                libs::dup2(fds_prev.0, 0);
                libs::close(fds_prev.0);''', '''                libs::close(fds_prev.0);'''))
mut("C02", "signal-status-256", "constants", "killed status is 256+signal",
    (T, "        self.2 + 128", "        self.2 + 256"))

# ------------------------------------------------------------------ C03
mut("C03", "break-on-skip", "R03-1", "skipped && segment ends the line",
    (E, '''        if sep == "&&" && status != 0 {
            continue;
        }''', '''        if sep == "&&" && status != 0 {
            break;
        }'''))
mut("C03", "and-polarity", "R03-2", "&& runs its right side on failure",
    (E, 'if sep == "&&" && status != 0 {', 'if sep == "&&" && status == 0 {'))
mut("C03", "no-previous-status", "R03-3", "$? is not updated",
    (E, "        sh.previous_status = status;\n", ""))
mut("C03", "dash-c-exit-zero", "R03-5|main|is_command_string", "-c always exits 0",
    (M, "        std::process::exit(sh.previous_status);", "        std::process::exit(0);"))
mut("C03", "swap-dollar-arms", "R03-4", "$? and $$ swapped",
    (S, '        if key == "?" {', '        if key == "$" {'),
    (S, '        } else if key == "$" {', '        } else if key == "?" {'))

# ------------------------------------------------------------------ C04
mut("C04", "append-truncates", "append-true", ">> truncates",
    (TL, "        oos.append(true);", "        oos.write(true);\n        oos.truncate(true);"))
mut("C04", "append-selector", "callsite", ">> selected by the wrong literal",
    (C, '                    let append = op_ == ">>";', '                    let append = op_ == ">";'))
mut("C04", "stderr-to-stdout", "dup2|file", "2> file lands on descriptor 1",
    (C, '''                            if from_ == "1" {
                                libs::dup2(fd, 1);''', '''                            if from_ == "2" {
                                libs::dup2(fd, 1);'''))
mut("C04", "open-error-exit-zero", "R04-4", "open failure exits 0",
    (C, '''                        Err(e) => {
                            println_stderr!("cicada: fork: {}", e);
                            process::exit(1);''', '''                        Err(e) => {
                            println_stderr!("cicada: fork: {}", e);
                            process::exit(0);'''))
mut("C04", "reverse-order", "R04-3", "redirections applied right to left",
    (C, "            for item in &cmd.redirects_to {", "            for item in cmd.redirects_to.iter().rev() {"))
mut("C04", "dup2-in-shell", "R04-5", "the shell rewires its own stdout for a builtin",
    (C, '''    let capture = options.capture_output;
    if cl.is_single_and_builtin() {''', '''    let capture = options.capture_output;
    if cl.is_single_and_builtin() {
        if cl.background {
            libs::dup2(2, 1);
        }'''))

# ------------------------------------------------------------------ C05
mut("C05", "nth-without-bound", "nth", "tokenizer looks one char ahead without a bound",
    (P, '''                if i + 1 < count_chars && line.chars().nth(i + 1).unwrap() == '|' {''',
     '''                if line.chars().nth(i + 1).unwrap() == '|' {'''))
mut("C05", "second-remove-unguarded", "remove", "redirect operand removed without a length test",
    (T, '''                redirects_from_type = "<".to_string();
                tokens_new.remove(idx);
                len -= 1;
                if len > idx {
                    redirects_from_value = tokens_new.remove(idx).1;
                    len -= 1;
                }''', '''                redirects_from_type = "<".to_string();
                tokens_new.remove(idx);
                len -= 1;
                redirects_from_value = tokens_new.remove(idx).1;
                len -= 1;'''))
mut("C05", "dollar-loop-continue", "stutter", "unparsable $(...) spins",
    (S, '''                    println_stderr!("cicada: {}", e);
                    types::CommandResult::from_status(0, 1)
                }
            };

            show_captured_stderr''', '''                    println_stderr!("cicada: {}", e);
                    continue;
                }
            };

            show_captured_stderr'''))
mut("C05", "job-loop-no-increment", "get_job_by_gid", "job lookup loop never advances",
    (S, '''                if x.gid == gid {
                    return Some(x);
                }
            }

            i += 1;''', '''                if x.gid == gid {
                    return Some(x);
                }
            }
'''))
mut("C05", "pow-again", "pow", "integer power overflows",
    (  "src/calculator/mod.rs", "Rule::power => lhs.wrapping_pow(rhs as u32),", "Rule::power => lhs.pow(rhs as u32),"))
mut("C05", "empty-command", "tokens, 0)", "first-word lookup on an empty word list",
    (T, '''        if tokens_final.is_empty() {
            return Err(String::from("syntax error: missing command"));
        }
''', ""))
mut("C05", "new-unwrap", "unwrap", "a new unwrap on user-controlled text",
    (S, '''            let end = match caps[2].to_string().parse::<i32>() {
                Ok(x) => x,
                Err(e) => {
                    println_stderr!("cicada: {}", e);
                    return;
                }
            };''', '''            let end = caps[2].to_string().parse::<i32>().unwrap();'''))

mut("C06", "member-stop-not-recorded", "R06-9|shell::Shell::mark_job_member_stopped|exact-mark", "a stopped member is not recorded",
    (S, "                    job.pids_stopped.insert(pid);", "                    let _ = pid;"))
mut("C06", "member-continue-clears-all", "R06-9|shell::Shell::mark_job_member_continued|exact-mark",
    "continuing one member forgets every member's stop mark",
    (S, "                    job.pids_stopped.remove(&pid);", "                    job.pids_stopped.clear();"))
# ------------------------------------------------------------------ C07
mut("C07", "no-give-back", "R07-1|execute::run_proc", "terminal stays with the finished job",
    (E, '''            let (term_given, cr) = core::run_pipeline(sh, &cl, tty, capture, log_cmd);
            if term_given {
                unsafe {
                    let gid = libc::getpgid(0);
                    shell::give_terminal_to(gid);
                }
            }
''', '''            let (_term_given, cr) = core::run_pipeline(sh, &cl, tty, capture, log_cmd);
'''))
mut("C07", "background-owns-terminal", "R07-2", "a background job is given the terminal",
    (C, '''                    if sh.has_terminal
                        && options.isatty
                        && !cl.background
                    {''', '''                    if sh.has_terminal
                        && options.isatty
                    {'''))
mut("C07", "no-setpgid-later-stages", "K1p", "later stages stay in the shell's group",
    (C, '''                unsafe {
                    libc::setpgid(0, *pgid);
                }''', '''                unsafe {
                    libc::getpgid(0);
                }'''))
mut("C07", "mask-not-restored", "R07-4", "signals stay blocked after tcsetpgrp",
    (S, '''    let rcode = libc::pthread_sigmask(libc::SIG_SETMASK, &old_mask, &mut mask);
    if rcode != 0 {
        log!("failed to call pthread_sigmask");
    }
    given''', '''    given'''))
mut("C07", "no-poll-after-line", "R07-5", "background jobs are not polled after a command",
    (M, '''                jobc::try_wait_bg_jobs(&mut sh, true, sig_handler_enabled);
                continue;
            }
            Ok(ReadResult::Eof) => {''', '''                continue;
            }
            Ok(ReadResult::Eof) => {'''))

mut("C02", "child-returns-on-missing-input", "R02-6|core::run_single_program|child-return",
    "a child whose < file cannot be opened returns into the shell's code instead of exiting",
    (C, """                    if fd == -1 {
                        process::exit(1);
                    }

                    libs::dup2(fd, 0);""", """                    if fd == -1 {
                        return 1;
                    }

                    libs::dup2(fd, 0);"""))

mut("C02", "wait-on-process-group", "R02-7|jobc::wait_fg_job|wait-target",
    "wait_fg_job waits on -gid: a stage that left the group is never reaped",
    (J, "        let ws = waitpidx(-1, true);", "        let ws = waitpidx(-gid, true);"))

mut("C03", "sigchld-disposition-not-reset", "R03-8|main|sigchld-disposition",
    "main no longer resets an inherited SIGCHLD=SIG_IGN (state before the repo fix)",
    (M, """        libc::signal(libc::SIGCHLD, libc::SIG_DFL);
""", ""))
mut("C02", "sigchld-reset-only-interactive", "R02-8|main|sigchld-disposition|run_command_line",
    "the SIGCHLD reset moved behind the -c / script exits",
    (M, """        libc::signal(libc::SIGCHLD, libc::SIG_DFL);
""", ""),
    (M, """    let sig_handler_enabled = tools::is_signal_handler_enabled();
""", """    unsafe {
        libc::signal(libc::SIGCHLD, libc::SIG_DFL);
    }
    let sig_handler_enabled = tools::is_signal_handler_enabled();
"""))

mut("C03", "splitter-quote-closed-by-any", "R03-9|parsers::parser_line::line_to_cmds|state-cleared-unguarded",
    "an apostrophe also closes a double-quoted region in the list splitter",
    (P, """            } else if sep == c.to_string() {
                token.push(c);
                sep = String::new();
                continue;""", """            } else if sep == c.to_string() || c == '\\'' {
                token.push(c);
                sep = String::new();
                continue;"""))
ref("splitter-eq-flipped", ["C03", "C01"], "sep == c.to_string() written as c.to_string() == sep",
    (P, """            } else if sep == c.to_string() {
                token.push(c);
                sep = String::new();
                continue;""", """            } else if c.to_string() == sep {
                token.push(c);
                sep = String::new();
                continue;"""))

# ------------------------------------------------------------------ C08
mut("C08", "child-keeps-read-end", "K3c", "child keeps the read end of its own output pipe",
    (C, '''                libs::dup2(fds.1, 1);
                libs::close(fds.1);
                libs::close(fds.0);''', '''                libs::dup2(fds.1, 1);
                libs::close(fds.1);'''))
mut("C08", "dup-not-closed", "K7", "temporary dup for 2>&1 stays open",
    (C, '''                        libs::dup2(fd, 2);
                        libs::close(fd);''', '''                        libs::dup2(fd, 2);'''))
mut("C08", "capture-pipes-for-builtin", "single-builtin", "capture pipes created for a single builtin again",
    (C, "    if capture && !cl.is_single_and_builtin() {", "    if capture {"))
mut("C08", "early-return-after-pipes", "R08-3", "return between pipe creation and the stage loop",
    (C, '''    let mut pgid: i32 = 0;
    let mut fg_pids: Vec<i32> = Vec::new();
''', '''    let mut pgid: i32 = 0;
    let mut fg_pids: Vec<i32> = Vec::new();
    if cl.line.len() > 4096 {
        return (false, CommandResult::error());
    }
'''))
mut("C08", "parent-keeps-capture-write", "P3a", "parent keeps the capture pipe's write end",
    (C, '''                    if let Some(fds) = fds_capture_stdout {
                        libs::close(fds.1);

                        let mut f = File::from_raw_fd(fds.0);''', '''                    if let Some(fds) = fds_capture_stdout {
                        let mut f = File::from_raw_fd(fds.0);'''))
mut("C08", "builtin-fd-not-wrapped", "R08-1", "print_stdout forgets the dup'ed descriptor on an early return",
    ("src/builtins/utils.rs", '''    let fd = _get_dupped_stdout_fd(cmd, cl);
    if fd == -1 {
        return;
    }
''', '''    let fd = _get_dupped_stdout_fd(cmd, cl);
    if fd == -1 || info.is_empty() {
        return;
    }
'''))

# ------------------------------------------------------------------ refactors (must stay silent)
ref("rename-locals", ["C01", "C13", "C05"], "rename sep/value in split_tokens_by_pipes",
    (T, '''        let sep = &token.0;
        let value = &token.1;
        if sep.is_empty() && value == "|" {''', '''        let tag = &token.0;
        let txt = &token.1;
        if tag.is_empty() && txt == "|" {'''))
ref("tag-eq-empty", ["C01", "C12", "C13"], "sep.is_empty() spelled sep == \"\"",
    (S, "if !sep.is_empty() || !needs_globbing(text) {", 'if sep != "" || !needs_globbing(text) {'))
ref("reorder-closes", ["C02", "C08"], "reorder the two independent parent closes",
    (C, '''            if idx_cmd < pipes_count {
                let fds = pipes[idx_cmd];
                libs::close(fds.1);
            }
            if idx_cmd > 0 {
                // close pipe end only after dupped in the child
                let fds = pipes[idx_cmd - 1];
                libs::close(fds.0);
            }
''', '''            if idx_cmd > 0 {
                // close pipe end only after dupped in the child
                let fds = pipes[idx_cmd - 1];
                libs::close(fds.0);
            }
            if idx_cmd < pipes_count {
                let fds = pipes[idx_cmd];
                libs::close(fds.1);
            }
'''))
ref("index-without-let", ["C02", "C08"], "close(pipes[idx].1) without the intermediate binding",
    (C, '''            if idx_cmd < pipes_count {
                let fds = pipes[idx_cmd];
                libs::close(fds.1);
            }
            if idx_cmd > 0 {
                // close pipe end only after dupped in the child''', '''            if pipes_count > idx_cmd {
                libs::close(pipes[idx_cmd].1);
            }
            if idx_cmd > 0 {
                // close pipe end only after dupped in the child'''))
ref("invert-if-else", ["C03", "C05"], "invert the operator-token test in run_command_line",
    (E, '''        if token == ";" || token == "&&" || token == "||" {
            sep = token.clone();
            continue;
        }
''', '''        if !(token == ";" || token == "&&" || token == "||") {
        } else {
            sep = token.clone();
            continue;
        }
'''))
ref("status-gt-zero", ["C03"], "status != 0 spelled status > 0",
    (E, 'if sep == "&&" && status != 0 {', 'if sep == "&&" && status > 0 {'))
ref("if-let-to-match", ["C08", "C04"], "if let Some(fds) -> match in the child's here-string block",
    (C, '''                if let Some(fds) = fds_stdin {
                    libs::close(fds.1);
                    libs::dup2(fds.0, 0);
                    libs::close(fds.0);
                }''', '''                match fds_stdin {
                    Some(fds) => {
                        libs::close(fds.1);
                        libs::dup2(fds.0, 0);
                        libs::close(fds.0);
                    }
                    None => {}
                }'''))
ref("extra-log-lines", ["C01", "C02", "C03", "C04", "C05", "C07", "C08"], "insert log lines (moves every line number)",
    (E, '''    let mut cr_list = Vec::new();
    let mut status = 0;''', '''    log!("run_command_line: {}", line);
    let mut cr_list = Vec::new();
    let mut status = 0;'''),
    (C, '''    let pipes_count = pipes.len();
    let mut fds_stdin = None;''', '''    log!("stage {}", idx_cmd);
    let pipes_count = pipes.len();
    let mut fds_stdin = None;'''))

ref("rename-loop-counter", ["C05", "C06"], "rename the counter of a job-table loop",
    (S, """    pub fn get_job_by_gid(&self, gid: i32) -> Option<&types::Job> {
        if self.jobs.is_empty() {
            return None;
        }

        let mut i = 1;
        loop {
            if let Some(x) = self.jobs.get(&i) {
                if x.gid == gid {
                    return Some(x);
                }
            }

            i += 1;
            if i >= 65535 {
                break;
            }
        }
        None
    }""", """    pub fn get_job_by_gid(&self, gid: i32) -> Option<&types::Job> {
        if self.jobs.is_empty() {
            return None;
        }

        let mut job_id = 1;
        loop {
            if let Some(job) = self.jobs.get(&job_id) {
                if job.gid == gid {
                    return Some(job);
                }
            }

            job_id += 1;
            if job_id >= 65535 {
                break;
            }
        }
        None
    }"""))

# ================================================================== second batch: C06, C09 - C20
SC = "src/scripting.rs"
SG = "src/signals.rs"
H = "src/history.rs"
BH = "src/builtins/history.rs"
CALC = "src/calculator/mod.rs"
G = "src/parsers/grammar.pest"
CP = "src/completers/path.rs"

# ------------------------------------------------------------------ C06
mut("C06", "binary-search-again", "R06-1", "pid lookup assumes sorted pids",
    (S, "if let Some(i_pid) = x.pids.iter().position(|p| *p == pid) {", "if let Ok(i_pid) = x.pids.binary_search(&pid) {"))
mut("C06", "exited-parked-as-stopped", "R06-2", "exit of a background child is parked in the stop map",
    (J, '''                let status = ws.get_status();
                signals::insert_reap_map(pid, status);''', '''                let _status = ws.get_status();
                signals::insert_stopped_map(pid);'''))
mut("C06", "cont-map-never-drained", "pop_cont_map", "continued events are never applied",
    (J, '''            if signals::pop_stopped_map(*pid) {
                mark_job_member_stopped(sh, *pid, job.gid, report);
            } else if signals::pop_cont_map(*pid) {
                mark_job_member_continued(sh, *pid, job.gid);
            }''', '''            if signals::pop_stopped_map(*pid) {
                mark_job_member_stopped(sh, *pid, job.gid, report);
            }'''))
mut("C06", "ids-from-zero", "R06-4", "job ids start at 0",
    (S, '''    pub fn insert_job(&mut self, gid: i32, pid: i32, cmd: &str, status: &str, bg: bool) {
        let mut i = 1;''', '''    pub fn insert_job(&mut self, gid: i32, pid: i32, cmd: &str, status: &str, bg: bool) {
        let mut i = 0;'''))
mut("C06", "poll-while-unblocked", "R06-3", "the job table is polled while SIGCHLD is deliverable",
    (M, '''        if sig_handler_enabled {
            // FIXME: in `rl.read_line()` below, there is lots of Rust code,''', '''        if sig_handler_enabled {
            signals::unblock_signals();
            jobc::try_wait_bg_jobs(&mut sh, false, sig_handler_enabled);
            // FIXME: in `rl.read_line()` below, there is lots of Rust code,'''))
mut("C06", "kill-map-shared", "R06-2", "killed events share the reap map",
    (SG, '''pub fn killed_map_insert(pid: i32, sig: i32) {
    if let Ok(mut m) = KILL_MAP.try_lock() {''', '''pub fn killed_map_insert(pid: i32, sig: i32) {
    if let Ok(mut m) = REAP_MAP.try_lock() {'''))
mut("C06", "all-stopped-any", "R06-5", "job counts as stopped when any member is",
    (T, '''            if !self.pids_stopped.contains(pid) {
                return false;
            }
        }
        true''', '''            if self.pids_stopped.contains(pid) {
                return true;
            }
        }
        false'''))

# ------------------------------------------------------------------ C09
mut("C09", "cd-state-before-chdir", "R09-1", "current_dir updated before chdir succeeds",
    ("src/builtins/cd.rs", '''    match env::set_current_dir(&dir_to) {
        Ok(_) => {
            sh.current_dir = dir_to.clone();''', '''    sh.current_dir = dir_to.clone();
    match env::set_current_dir(&dir_to) {
        Ok(_) => {'''))
mut("C09", "prefix-applies-to-shell", "R09-2", "NAME=v cmd changes the shell's variable",
    (E, '''            if cl.is_empty() {
                // for commands with only envs, e.g.
                // $ FOO=1 BAR=2
                // we need to define these **Shell Variables**.
                if !cl.envs.is_empty() {
                    set_shell_vars(sh, &cl.envs);
                }
                return CommandResult::new();
            }
''', '''            if !cl.envs.is_empty() {
                set_shell_vars(sh, &cl.envs);
            }
            if cl.is_empty() {
                return CommandResult::new();
            }
'''))
mut("C09", "unset-keeps-exported", "R09-4", "unset leaves the exported variable",
    (S, '''        env::remove_var(name);
        self.envs.remove(name);''', '''        self.envs.remove(name);'''))
mut("C09", "child-env-without-prefix", "R09-3", "NAME=v cmd does not reach the child",
    (C, '''            for (key, value) in cl.envs.iter() {
                c_envs.push(
                    CString::new(format!("{}={}", key, value).as_str()).expect("CString error"),
                );
            }
''', ""))
mut("C09", "set-env-always-local", "R09-5", "assignment to an exported name stays local",
    (S, '''        if env::var(name).is_ok() {
            env::set_var(name, value);
        } else {
            self.envs.insert(name.to_string(), value.to_string());
        }''', '''        self.envs.insert(name.to_string(), value.to_string());'''))
mut("C09", "cd-failure-silent", "fail-status", "failed cd returns status 0",
    ("src/builtins/cd.rs", '''        Err(e) => {
            let info = format!("cicada: cd: {}", e);
            print_stderr_with_capture(&info, &mut cr, cl, cmd, capture);
            cr
        }''', '''        Err(_e) => {
            cr
        }'''))

# ------------------------------------------------------------------ C10
mut("C10", "swap-dollar-arms", "R10-3", "$? and $$ swapped",
    (S, '        if key == "?" {', '        if key == "$" {'),
    (S, '        } else if key == "$" {', '        } else if key == "?" {'))
mut("C10", "single-quote-expands", "R10-2", "variables expand inside single quotes",
    (S, '''        if sep == "`" || sep == "'" || sep == "\\\\" {
            idx += 1;
            continue;
        }

        if !env_in_token(token) {''', '''        if sep == "`" || sep == "\\\\" {
            idx += 1;
            continue;
        }

        if !env_in_token(token) {'''))
mut("C01", "escaped-dollar-expands", "expand_env", "a backslash-escaped leading $ expands again",
    (S, '''        if sep == "`" || sep == "'" || sep == "\\\\" {
            idx += 1;
            continue;
        }

        if !env_in_token(token) {''', '''        if sep == "`" || sep == "'" {
            idx += 1;
            continue;
        }

        if !env_in_token(token) {'''))
mut("C10", "status-from-wrong-field", "R10-3", "$? prints the exit_on_error flag",
    (S, 'format!("{}", sh.previous_status)',
     'format!("{}", sh.exit_on_error as i32)'))

# ------------------------------------------------------------------ C11
mut("C11", "no-capture", "capture#", "substitution runs without capture",
    (S, '''                    log!("run subcmd dollar: {:?}", &cmd);
                    let (term_given, cr) = core::run_pipeline(sh, &c, true, true, false);''',
     '''                    log!("run subcmd dollar: {:?}", &cmd);
                    let (term_given, cr) = core::run_pipeline(sh, &c, true, false, false);'''))
mut("C11", "template-unescaped", "R11-1", "output used as replacement template",
    (S, 'let to = output_txt.replace("$", "$$");',
     'let to = output_txt.to_string();'))
mut("C11", "trim-again", "R11-5", "leading blanks of the output are stripped",
    (S, "let output_txt = cmd_result.stdout.trim_end_matches('\\n');", "let output_txt = cmd_result.stdout.trim();"))
mut("C11", "spin-on-error", "R11-3", "unparsable $(...) spins",
    (S, '''                    println_stderr!("cicada: {}", e);
                    types::CommandResult::from_status(0, 1)
                }
            };

            show_captured_stderr''', '''                    println_stderr!("cicada: {}", e);
                    continue;
                }
            };

            show_captured_stderr'''))
mut("C11", "no-terminal-back", "R11-4", "terminal not given back after a substitution",
    (S, '''                    log!("run subcmd dollar: {:?}", &cmd);
                    let (term_given, cr) = core::run_pipeline(sh, &c, true, true, false);
                    if term_given {
                        unsafe {
                            let gid = libc::getpgid(0);
                            give_terminal_to(gid);
                        }
                    }
''', '''                    log!("run subcmd dollar: {:?}", &cmd);
                    let (_term_given, cr) = core::run_pipeline(sh, &c, true, true, false);
'''))

# ------------------------------------------------------------------ C12
mut("C12", "glob-ascending", "R12-3", "glob edits applied in ascending order",
    (S, '''    for (i, result) in buff.iter().rev() {
        tokens.remove(*i);
        for (j, token) in result.iter().enumerate() {''', '''    for (i, result) in buff.iter() {
        tokens.remove(*i);
        for (j, token) in result.iter().enumerate() {'''))
mut("C12", "brace-no-quote-tag", "R12-2", "brace results with spaces are not tagged",
    (S, '''    for (i, items) in buff.iter().rev() {
        tokens.remove(*i);
        for (j, token) in items.iter().enumerate() {
            let sep = if token.contains(' ') { "\\"" } else { "" };
            tokens.insert(*i + j, (sep.to_string(), token.clone()));
        }
    }
}

fn expand_brace_range''', '''    for (i, items) in buff.iter().rev() {
        tokens.remove(*i);
        for (j, token) in items.iter().enumerate() {
            let sep = "";
            tokens.insert(*i + j, (sep.to_string(), token.clone()));
        }
    }
}

fn expand_brace_range'''))
mut("C12", "home-in-quotes", "R12-1", "tilde expands inside quotes",
    (S, '''        if !sep.is_empty() || !text.starts_with("~") {''', '''        if !text.starts_with("~") {'''))
mut("C12", "home-template", "R12-4", "home directory used as template",
    (S, 'let to = format!("{}$tail", home.replace("$", "$$"));', 'let to = format!("{}$tail", home);'))

mut("C12", "range-excludes-end", "R12-6|shell::expand_brace_range|ascending|inclusive", "{1..3} stops before 3",
    (S, "            while n <= end {", "            while n < end {"))
mut("C12", "range-desc-excludes-end", "R12-6|shell::expand_brace_range|descending|inclusive", "{3..1} stops before 1",
    (S, "            while n >= end {", "            while n > end {"))
mut("C12", "range-push-after-step", "R12-6|shell::expand_brace_range|ascending|push", "the start value is skipped",
    (S, """                    seq.push(format!("{}", n));
                    n = match n.checked_add(incr) {
                        Some(x) => x,
                        None => break,
                    };
""", """                    n = match n.checked_add(incr) {
                        Some(x) => x,
                        None => break,
                    };
                    seq.push(format!("{}", n));
"""))
mut("C12", "range-direction-flipped", "R12-6|shell::expand_brace_range|descending|selected", "descending loop chosen when start < end",
    (S, "            if start > end {\n                while n >= end {", "            if start < end {\n                while n >= end {"))
ref("range-loop-to-loop-break", ["C12", "C05"], "while n <= end rewritten as loop { if n > end { break } .. }",
    (S, """                while n <= end {
                    seq.push(format!("{}", n));
                    n = match n.checked_add(incr) {
                        Some(x) => x,
                        None => break,
                    };
                }
""", """                loop {
                    if n > end {
                        break;
                    }
                    seq.push(format!("{}", n));
                    n = match n.checked_add(incr) {
                        Some(x) => x,
                        None => break,
                    };
                }
"""))
mut("C01", "pipe-lookahead-by-byte", "R01-4|parsers::parser_line::parse_line|char-index-as-byte-offset",
    "the `||` look-ahead of the tokenizer peeks as_bytes()[i + 1] with a character index",
    (P, """                if i + 1 < count_chars && line.chars().nth(i + 1).unwrap() == '|' {""",
     """                if i + 1 < count_chars && line.as_bytes()[i + 1] as char == '|' {"""))
ref("lookahead-skip-next", ["C01", "C03", "C05"], "chars().nth(i + 1) written as chars().skip(i + 1).next()",
    (P, """                    let c_next = match line.chars().nth(i + 1) {""",
     """                    let c_next = match line.chars().skip(i + 1).next() {"""))
ref("width-accounting-unconditional", ["C05", "C20"], "extra_bytes += c.len_utf8() - 1 without the `> 1` test",
    ("src/completers/mod.rs", """        let bytes_c = c.len_utf8();
        if bytes_c > 1 {
            extra_bytes += bytes_c - 1;
        }
""", """        extra_bytes += c.len_utf8() - 1;
"""))
mut("C20", "width-accounting-after-continue", "R20-5|completers::escaped_word_start|width-accounting",
    "quote characters are skipped before the byte correction is updated (a typographic quote is 3 bytes)",
    ("src/completers/mod.rs", """        if !with_quote && !found_bs && (c == '"' || c == '\\'') {
            with_quote = true;
            ch_quote = c;
        }""", """        if !with_quote && !found_bs && (c == '"' || c == '\\'' || c == '\\u{201c}') {
            with_quote = true;
            ch_quote = c;
            continue;
        }"""))

mut("C11", "backquote-error-skips-counter", "R11-7|shell::do_command_substitution_for_dot|scan-counter",
    "an unparsable `cmd` word leaves the position counter behind (the state before repo fix d1c87eb)",
    (S, """                    // empty replacement; idx has to stay in step with the scan
                    buff.insert(idx, String::new());
                    idx += 1;
                    continue;""", """                    continue;"""))
mut("C13", "empty-substitution-removed-first", "R13-4|shell::do_command_substitution_for_dot|stale-index",
    "tokens whose $(...) printed nothing are removed before the recorded results are written back",
    (S, """    for (i, text) in buff.iter() {
        tokens[*i].1 = text.to_string();
    }
}

fn do_command_substitution(""", """    let empties: Vec<usize> = buff.iter().filter(|(_, t)| t.is_empty()).map(|(i, _)| *i).collect();
    for i in empties.iter() {
        if tokens[*i].0.is_empty() {
            tokens.remove(*i);
        }
    }
    for (i, text) in buff.iter() {
        if !text.is_empty() {
            tokens[*i].1 = text.to_string();
        }
    }
}

fn do_command_substitution("""))
mut("C15", "positional-pass-skips-counter", "R15-6|scripting::expand_args_in_tokens|scan-counter",
    "a quoted word is skipped without advancing the position counter",
    ("src/scripting.rs", """        if sep == "`" || sep == "'" || sep == "\\\\" || !is_args_in_token(token) {
            idx += 1;
            continue;
        }""", """        if sep == "`" || sep == "'" || sep == "\\\\" {
            continue;
        }
        if !is_args_in_token(token) {
            idx += 1;
            continue;
        }"""))
mut("C11", "run-proc-assignment-fast-path", "R11-8|execute::run_proc|expanded-twice",
    "run_proc plans the line only to look for assignments and plans it again to run it",
    (E, """    let log_cmd = !sh.cmd.starts_with(' ');
    match CommandLine::from_line(line, sh) {""", """    let log_cmd = !sh.cmd.starts_with(' ');
    if let Ok(probe) = CommandLine::from_line(line, sh) {
        if probe.is_empty() && probe.envs.is_empty() {
            return CommandResult::new();
        }
    }
    match CommandLine::from_line(line, sh) {"""))

ref("func-args-extend", ["C15"], "the argument vector of a function call built with extend(map) instead of a push loop",
    (C, """        for token in &command.tokens {
            args.push(token.1.to_string());
        }
""", """        args.extend(command.tokens.iter().map(|token| token.1.to_string()));
"""))
mut("C15", "func-args-skip-empty", "R15-2|core::try_run_func|all-words", "empty words of a function call are not passed on",
    (C, """        for token in &command.tokens {
            args.push(token.1.to_string());
        }
""", """        for token in &command.tokens {
            if token.1.is_empty() {
                continue;
            }
            args.push(token.1.to_string());
        }
"""))

ref("alias-list-collect", ["C17"], "get_alias_list written as iter().map().collect()",
    (S, """        let mut result = Vec::new();
        for (name, value) in &self.aliases {
            result.push((name.clone(), value.clone()));
        }
        result
""", """        self.aliases.iter().map(|(name, value)| (name.clone(), value.clone())).collect()
"""))
mut("C18", "space-test-on-expanded-line", "R18-2|main|typed-line", "the leading-space test reads the line after !! expansion",
    (M, "                if !sh.cmd.starts_with(' ') && line != sh.previous_cmd {",
     "                if !line.starts_with(' ') && line != sh.previous_cmd {"))
ref("grammar-drop-inner-soi", ["C14"], "the (SOI)? prefixes of the three block rules removed (EXP itself starts with SOI)",
    ("src/parsers/grammar.pest", """EXP_IF = {
    (SOI)? ~
    IF_IF_BR ~""", """EXP_IF = {
    IF_IF_BR ~"""),
    ("src/parsers/grammar.pest", """EXP_FOR = {
    (SOI)? ~
    FOR_HEAD ~""", """EXP_FOR = {
    FOR_HEAD ~"""),
    ("src/parsers/grammar.pest", """EXP_WHILE = {
    (SOI)? ~
    WHILE_HEAD ~""", """EXP_WHILE = {
    WHILE_HEAD ~"""))
mut("C14", "top-rule-without-soi", "R14-8|grammar|balance-agreement",
    "EXP loses its SOI anchor (state before the repo fix): an indented unbalanced first line is accepted as a command",
    ("src/parsers/grammar.pest", "EXP = { SOI ~ (EXP_IF | EXP_FOR | EXP_WHILE | CMD)* ~ EOI }",
     "EXP = { (EXP_IF | EXP_FOR | EXP_WHILE | CMD)* ~ EOI }"))
mut("C16", "dq-backslash-unescaped", "R16-3|parsers::parser_line::parse_line|dq-unescaped-not-reescaped",
    "inside double quotes the tokenizer turns two backslashes into one; the renderer does not re-escape it",
    (P, """        if has_backslash && sep == "\\"" && c != '\\"' {""", """        if has_backslash && sep == "\\"" && c != '\\"' && c != '\\\\' {"""))

mut("C05", "highlight-fallback-char-end", "char-index-as-byte-offset",
    "the highlighter's fallback range ends at a character index added to a byte offset",
    ("src/highlight.rs", """             // As a basic fallback, consume up to the next space or end of line? Unsafe.
             // Return None to signal failure for this token.
             None""", """             let mut end = search_area.len();
             for (i, c) in search_area.chars().enumerate() {
                 if c == ' ' {
                     end = i;
                     break;
                 }
             }
             Some(token_start_byte..(token_start_byte + end))"""))
ref("highlight-fallback-byte-end", ["C05"], "the same fallback written with char_indices (byte offsets)",
    ("src/highlight.rs", """             // As a basic fallback, consume up to the next space or end of line? Unsafe.
             // Return None to signal failure for this token.
             None""", """             let mut end = search_area.len();
             for (i, c) in search_area.char_indices() {
                 if c == ' ' {
                     end = i;
                     break;
                 }
             }
             Some(token_start_byte..(token_start_byte + end))"""))

mut("C09", "unset-skips-env-when-local", "R09-4|shell::Shell::remove_env|always|remove_var",
    "remove_env touches the process environment only when the name was not a shell variable",
    (S, """        env::remove_var(name);
        self.envs.remove(name);
""", """        if self.envs.remove(name).is_none() {
            env::remove_var(name);
        }
"""))
ref("unset-order-swapped", ["C09", "C10"], "remove_env removes from the shell map first, then from the environment",
    (S, """        env::remove_var(name);
        self.envs.remove(name);
""", """        self.envs.remove(name);
        env::remove_var(name);
"""))
mut("C12", "home-looked-up-once", "R12-8|shell::expand_home|home-read-each-time",
    "get_user_home caches its first answer in a OnceLock",
    (TL, """pub fn get_user_home() -> String {
    match env::var("HOME") {
        Ok(x) => x,
        Err(e) => {
            println_stderr!("cicada: env HOME error: {}", e);
            String::new()
        }
    }
}""", """pub fn get_user_home() -> String {
    static HOME: std::sync::OnceLock<String> = std::sync::OnceLock::new();
    HOME.get_or_init(|| match env::var("HOME") {
        Ok(x) => x,
        Err(e) => {
            println_stderr!("cicada: env HOME error: {}", e);
            String::new()
        }
    })
    .clone()
}"""))
ref("home-via-helper", ["C12"], "get_user_home delegates to a small helper function",
    (TL, """pub fn get_user_home() -> String {
    match env::var("HOME") {""", """pub fn get_user_home() -> String {
    read_home_from_env()
}

fn read_home_from_env() -> String {
    match env::var("HOME") {"""))
mut("C14", "eoi-closes-if", "R14-7|grammar|EXP_IF|closing|KW_FI", "`fi` or the end of input closes an if",
    ("src/parsers/grammar.pest", 'KW_FI = _{ "fi" ~ (NEWLINE | EOI) }', 'KW_FI = _{ "fi" ~ NEWLINE | EOI }'))
mut("C11", "splice-pattern-anchored", "R11-9|shell::do_command_substitution_for_dollar|splice-anchored",
    "the splice pattern gets ^ and $ anchors",
    (S, """                r"\\$\\(([^()]+)\\)"
            } else {""", """                r"^\\$\\(([^()]+)\\)$"
            } else {"""))
mut("C13", "whole-subst-guard-excludes-paren", "R13-5|shell::env_in_token|whole-substitution-guard",
    "the guard for a whole-token $(...) no longer admits `)` in the body",
    (S, """        || libs::re::re_contains(token, r"^\\$\\(.+\\)$")""", """        || libs::re::re_contains(token, r"^\\$\\([^\\)]+\\)$")"""))

# ------------------------------------------------------------------ C13
mut("C13", "env-resets-tag", "R13-2", "expand_env drops the quote tag of the token it rewrites",
    (S, '''    for (i, text) in buff.iter().rev() {
        tokens[*i].1 = text.to_string();
    }
}

fn should_do_dollar_command_extension''', '''    for (i, text) in buff.iter().rev() {
        tokens[*i] = (String::new(), text.to_string());
    }
}

fn should_do_dollar_command_extension'''))
mut("C13", "pipe-ignores-tag", "R13-1", "quoted | splits the pipeline",
    (T, 'if sep.is_empty() && value == "|" {', 'if value == "|" {'))
mut("C13", "glob-never-tags", "R13-2", "file names with spaces lose their protection tag",
    (S, '''        for (j, token) in result.iter().enumerate() {
            let sep = if token.contains(' ') { "\\"" } else { "" };
            tokens.insert(*i + j, (sep.to_string(), token.clone()));
        }
    }
}

fn expand_one_env''', '''        for (j, token) in result.iter().enumerate() {
            tokens.insert(*i + j, (String::new(), token.clone()));
        }
    }
}

fn expand_one_env'''))

# ------------------------------------------------------------------ C14
mut("C14", "unanchored", "R14-1", "unbalanced script silently truncated",
    (G, "EXP = { SOI ~ (EXP_IF | EXP_FOR | EXP_WHILE | CMD)* ~ EOI }", "EXP = { SOI ~ (EXP_IF | EXP_FOR | EXP_WHILE | CMD)* }"))
mut("C14", "all-branches-run", "first-true", "every true branch of an if runs",
    (SC, '''        // break at first successful branch
        if passed {
            break;
        }
''', ""))
mut("C14", "flags-swapped", "forward-", "break inside an if acts as continue",
    (SC, '''            if _cont {
                return (cr_list, true, false);
            }
            if _brk {
                return (cr_list, false, true);
            }''', '''            if _cont {
                return (cr_list, false, true);
            }
            if _brk {
                return (cr_list, true, false);
            }'''))
mut("C14", "for-not-in-loop", "in_loop", "break is refused inside for",
    (SC, '''                let (mut _cr_list, _cont, _brk) = run_exp(
                    sh, pair.clone(), args, true, capture);''', '''                let (mut _cr_list, _cont, _brk) = run_exp(
                    sh, pair.clone(), args, false, capture);'''))
mut("C14", "while-ignores-break", "leave-on-break", "break does not leave while",
    (SC, "        if !passed || _brk {", "        if !passed {"))
mut("C14", "new-construct-unhandled", "R14-2", "grammar gains a construct the interpreter ignores",
    (G, "EXP_BODY = { (CMD | EXP_IF | EXP_WHILE | EXP_FOR)+ }", "EXP_UNTIL = { KW_WHILE ~ TEST ~ NEWLINE }\nEXP_BODY = { (CMD | EXP_IF | EXP_WHILE | EXP_FOR | EXP_UNTIL)+ }"))

ref("brace-scan-enumerate-then-filter", ["C01", "C05", "C12", "C13"],
    "expand_brace scans tokens.iter().enumerate().filter(untagged): the tag test sits in the filter closure, positions are exact",
    (S, '    let mut idx: usize = 0;\n    let mut buff = Vec::new();\n    for (sep, token) in tokens.iter() {\n        if !sep.is_empty() || !need_expand_brace(token) {\n            idx += 1;\n            continue;\n        }\n\n        let mut result: Vec<String> = Vec::new();\n        let items = brace_getitem(token, 0);\n        for x in items.0 {\n            result.push(x.clone());\n        }\n        buff.push((idx, result));\n        idx += 1;\n    }\n', '    // quoted tokens are never brace-expanded\n    let unquoted = tokens.iter().enumerate().filter(|(_, (sep, _))| sep.is_empty());\n    let mut buff: Vec<(usize, Vec<String>)> = Vec::new();\n    for (idx, (_, token)) in unquoted {\n        if need_expand_brace(token) {\n            let (items, _) = brace_getitem(token, 0);\n            buff.push((idx, items));\n        }\n    }\n'))
mut("C12", "brace-scan-filter-then-enumerate", "R12-7|shell::expand_brace|enumerate-position",
    "enumerate() after the tag filter: the recorded position counts unquoted tokens only",
    (S, '    let mut idx: usize = 0;\n    let mut buff = Vec::new();\n    for (sep, token) in tokens.iter() {\n        if !sep.is_empty() || !need_expand_brace(token) {\n            idx += 1;\n            continue;\n        }\n\n        let mut result: Vec<String> = Vec::new();\n        let items = brace_getitem(token, 0);\n        for x in items.0 {\n            result.push(x.clone());\n        }\n        buff.push((idx, result));\n        idx += 1;\n    }\n', '    // quoted tokens are never brace-expanded\n    let unquoted = tokens.iter().filter(|(sep, _)| sep.is_empty());\n    let mut buff: Vec<(usize, Vec<String>)> = Vec::new();\n    for (idx, (_, token)) in unquoted.enumerate() {\n        if need_expand_brace(token) {\n            let (items, _) = brace_getitem(token, 0);\n            buff.push((idx, items));\n        }\n    }\n'))
# ------------------------------------------------------------------ C15
mut("C15", "func-status-zero", "R15-1|core::try_run_func", "function status always 0",
    (C, "        cr.status = status;\n", ""))
mut("C15", "args-from-two", "R15-2", "positional parameters shifted by one",
    (SC, '''            let line_new = expand_args(line, &args[1..]);
            let mut _cr_list = execute::run_command_line(sh, &line_new, true, capture);
            cr_list.append(&mut _cr_list);''', '''            let line_new = expand_args(line, &args[2..]);
            let mut _cr_list = execute::run_command_line(sh, &line_new, true, capture);
            cr_list.append(&mut _cr_list);'''))
mut("C15", "set-e-ignored", "R15-3", "set -e does not stop the block",
    (SC, '''            if let Some(last) = cr_list.last() {
                let status = last.status;
                if status != 0 && sh.exit_on_error {
                    return (cr_list, false, false);
                }
            }
''', ""))
mut("C15", "func-status-or", "R15-1|core::try_run_func|status", "a function's status is the OR of its commands' statuses, not the last one",
    (C, "            status = cr.status;", "            status |= cr.status;"))
mut("C15", "set-e-narrowed", "R15-3", "set -e stops the block only under a further condition (not in a login shell)",
    (SC, "if status != 0 && sh.exit_on_error {", "if status != 0 && sh.exit_on_error && !sh.is_login {"))
mut("C15", "source-status-lost", "builtins::source::run", "source always returns 0",
    ("src/builtins/source.rs", '''    let status = scripting::run_script(sh, &args);
    cr.status = status;''', '''    let _status = scripting::run_script(sh, &args);'''))
mut("C15", "script-status-first", "run_script", "script status is that of its first command",
    (SC, "    if let Some(last) = cr_list.last() {\n        status = last.status;", "    if let Some(last) = cr_list.first() {\n        status = last.status;"))

# ------------------------------------------------------------------ C16
mut("C16", "script-bypasses-funnel", "R16-1", "script lines are planned by the interpreter itself",
    (SC, '''            let line_new = expand_args(line, &args[1..]);
            let mut _cr_list = execute::run_command_line(sh, &line_new, true, capture);
            cr_list.append(&mut _cr_list);''', '''            let line_new = expand_args(line, &args[1..]);
            let mut _cr_list = match types::CommandLine::from_line(&line_new, sh) {
                Ok(c) => vec![crate::core::run_pipeline(sh, &c, true, capture, false).1],
                Err(_) => execute::run_command_line(sh, &line_new, true, capture),
            };
            cr_list.append(&mut _cr_list);'''))
mut("C16", "tagged-rendered-raw", "R16-2", "quoted tokens lose their quotes on the script path",
    (P, '''        if t.0.is_empty() {
            result.push_str(&t.1);
        } else {
            let s = tools::wrap_sep_string(&t.0, &t.1);
            result.push_str(&s);
        }''', '''        if t.0.is_empty() || t.0 == "\\\\" {
            result.push_str(&t.1);
        } else {
            let s = format!("{}{}{}", t.0, t.1, t.0);
            result.push_str(&s);
        }'''))

# ------------------------------------------------------------------ C17
mut("C17", "head-never-cleared", "cleared", "every word is treated as a command word",
    (S, '''        if !is_head || !sh.is_alias(text) {
            idx += 1;
            is_head = false;
            continue;
        }''', '''        if !is_head || !sh.is_alias(text) {
            idx += 1;
            continue;
        }'''))
mut("C17", "lookup-without-head", "guard|is_alias", "aliases expand in argument position",
    (S, "        if !is_head || !sh.is_alias(text) {", "        if !sh.is_alias(text) {"))
mut("C17", "quoted-pipe-sets-head", "R17-1", "a quoted | starts a new stage for alias purposes",
    (S, '''        if sep.is_empty() && text == "|" {
            is_head = true;''', '''        if text == "|" {
            is_head = true;'''))
mut("C17", "unalias-prefix", "R17-3", "unalias trims its argument",
    ("src/builtins/unalias.rs", "    let input = &tokens[1].1;\n    if !sh.remove_alias(input) {", "    let input = &tokens[1].1;\n    if !sh.remove_alias(input.trim_end_matches('s')) {"))

# ------------------------------------------------------------------ C18
mut("C18", "dir-in-sql-again", "R18-1", "directory name pasted into the INSERT",
    (H, '''         VALUES(?1, {}, {}, {}, '{}', ?2);",
        history_table,
        status,
        tsb,
        tse,
        sh.session_id,
    );
    let info = format!("dir:{}|", sh.current_dir);
    match conn.execute(&sql, [line.trim(), info.as_str()]) {''', '''         VALUES(?1, {}, {}, {}, '{}', 'dir:{}|');",
        history_table,
        status,
        tsb,
        tse,
        sh.session_id,
        sh.current_dir,
    );
    match conn.execute(&sql, [line.trim()]) {'''))
mut("C18", "space-lines-recorded", "R18-2", "lines starting with a space are recorded",
    (M, "                if !sh.cmd.starts_with(' ') && line != sh.previous_cmd {", "                if line != sh.previous_cmd {"))
mut("C18", "pattern-in-sql", "R18-1", "search pattern pasted into the SELECT",
    (BH, '''        params.push(format!("%{}%", opt.pattern));
        sql = format!("{} AND inp LIKE ?{}", sql, params.len())''', '''        sql = format!("{} AND inp LIKE '%{}%'", sql, opt.pattern)'''))

# ------------------------------------------------------------------ C19
mut("C19", "power-left-assoc", "R19-1", "^ is left associative",
    (CALC, ".op(Op::infix(power, Right))", ".op(Op::infix(power, Left))"))
mut("C19", "float-sub-adds", "arm|subtract", "float subtraction adds",
    (CALC, "            Rule::subtract => lhs - rhs,", "            Rule::subtract => lhs + rhs,"))
mut("C19", "mode-inverted", "R19-3", "float mode chosen without a dot",
    (C, '''            if line.contains('.') {
                Ok(format!("{}", calculator::eval_float(expr)))
            } else {
                Ok(format!("{}", calculator::eval_int(expr)))
            }''', '''            if !line.contains('.') {
                Ok(format!("{}", calculator::eval_float(expr)))
            } else {
                Ok(format!("{}", calculator::eval_int(expr)))
            }'''))
mut("C19", "div-by-zero-panics", "div-guard", "integer division by zero panics",
    (CALC, '''                if rhs == 0 {
                    (lhs as f64 / 0.0) as i64
                } else {
                    (W(lhs) / W(rhs)).0
                }''', '''                (W(lhs) / W(rhs)).0'''))
mut("C19", "mul-before-add-lost", "R19-1", "* and + share a precedence level",
    (CALC, '''            .op(Op::infix(add, Left) | Op::infix(subtract, Left))
            .op(Op::infix(multiply, Left) | Op::infix(divide, Left))''',
     '''            .op(Op::infix(add, Left) | Op::infix(subtract, Left) | Op::infix(multiply, Left) | Op::infix(divide, Left))'''))

# ------------------------------------------------------------------ C20
mut("C20", "star-not-escaped", "missing|*", "completion inserts * unescaped",
    (TL, r'''let re = Regex::new(r##"(?P<c>[!\(\)<>,\?\]\[\{\} \\'"`*\^#|$&;])"##).unwrap();''',
     r'''let re = Regex::new(r##"(?P<c>[!\(\)<>,\?\]\[\{\} \\'"`\^#|$&;])"##).unwrap();'''))
mut("C20", "contains-filter", "prefix", "candidates contain the prefix anywhere",
    (CP, "                if _path.starts_with(&file_name) {", "                if _path.contains(&file_name) {"))
mut("C20", "unsorted", "sorted", "candidates are not sorted",
    (CP, "    res.sort_by(|a, b| a.completion.cmp(&b.completion));\n", ""))
mut("C20", "files-after-cd", "for_dir", "files are offered after cd",
    (CP, '''            if for_dir && !is_dir {
                continue;
            }
''', ""))

mut("C20", "tokenizer-blank-class", "R20-4|parsers::parser_line::parse_line|pred|is_whitespace",
    "any Unicode blank separates words, the escaper covers only the space",
    (P, """            if c == ' ' {
                continue;
            } else if c == '"'""", """            if c.is_whitespace() {
                continue;
            } else if c == '"'"""))
mut("C20", "tokenizer-tab-separates", "R20-4|parsers::parser_line::parse_line|eq|\t",
    "a TAB separates words too, the escaper does not cover it",
    (P, """        if c == ' ' {
            if semi_ok {""", """        if c == ' ' || c == '\\t' {
            if semi_ok {"""))
mut("C08", "shell-closes-stale-end", "stale close(pipes[idx-1].1)|shell",
    "the shell 'defensively' closes the previous pipe's write end again before feeding the here-string",
    (C, """            if let Some(redirect_from) = &cmd.redirect_from {
                if redirect_from.0 == "<<<" {""", """            if idx_cmd > 0 {
                libs::close(pipes[idx_cmd - 1].1);
            }
            if let Some(redirect_from) = &cmd.redirect_from {
                if redirect_from.0 == "<<<" {"""))

mut("C20", "word-start-quote-toggle", "R20-6|completers::escaped_word_start|quote-state",
    "any quote character toggles the quoted state of the word-start scanner",
    ("src/completers/mod.rs", """        if !with_quote && !found_bs && (c == '"' || c == '\\'') {
            with_quote = true;
            ch_quote = c;
        } else if with_quote && !found_bs && ch_quote == c {
            with_quote = false;
        }""", """        if !found_bs && (c == '"' || c == '\\'') {
            with_quote = !with_quote;
            ch_quote = c;
        }"""))
ref("word-start-quote-match", ["C20", "C05"], "quote tracking of the word-start scanner written with nested ifs",
    ("src/completers/mod.rs", """        if !with_quote && !found_bs && (c == '"' || c == '\\'') {
            with_quote = true;
            ch_quote = c;
        } else if with_quote && !found_bs && ch_quote == c {
            with_quote = false;
        }""", """        if !found_bs {
            if with_quote {
                if c == ch_quote {
                    with_quote = false;
                }
            } else if c == '"' || c == '\\'' {
                ch_quote = c;
                with_quote = true;
            }
        }"""))

mut("C17", "unalias-dash-a", "R17-3|builtins::unalias::run|only-remove-alias", "unalias -a clears the table",
    ("src/builtins/unalias.rs", """    let input = &tokens[1].1;
""", """    let input = &tokens[1].1;
    if input == "-a" {
        sh.aliases.clear();
        return cr;
    }
"""))
mut("C20", "for-cd-anchored", "R20-7|completers::for_cd|prefix-test", "for_cd also constrains the rest of the line",
    ("src/completers/mod.rs", 'libs::re::re_contains(line, r"^ *cd +")', 'libs::re::re_contains(line, r"^ *cd +[^ ]*$")'))
ref("for-cd-blank-class", ["C20"], "for_cd written with a blank class",
    ("src/completers/mod.rs", 'libs::re::re_contains(line, r"^ *cd +")', 'libs::re::re_contains(line, r"^[ ]*cd[ \\t]+")'))
mut("C18", "cmd-stored-after-bangbang", "R18-2|main|typed-line", "sh.cmd is assigned after the !! expansion rewrote the line",
    (M, """                let line = shell::trim_multiline_prompts(&line);
                if line.trim() == "" {
                    jobc::try_wait_bg_jobs(&mut sh, true, sig_handler_enabled);
                    continue;
                }
                sh.cmd = line.clone();

                let tsb = ctime::DateTime::now().unix_timestamp();
                let mut line = line.clone();
""", """                let mut line = shell::trim_multiline_prompts(&line);
                if line.trim() == "" {
                    jobc::try_wait_bg_jobs(&mut sh, true, sig_handler_enabled);
                    continue;
                }

                let tsb = ctime::DateTime::now().unix_timestamp();
"""),
    (M, """                tools::extend_bangbang(&sh, &mut line);
""", """                tools::extend_bangbang(&sh, &mut line);
                sh.cmd = line.clone();
"""))

mut("C19", "num-accepts-bare-dot", "R19-5|grammar|num-parses-as-f64", "the grammar accepts `.` / `-.` as a number",
    ("src/calculator/grammar.pest", """num = @{ int ~ ("." ~ ASCII_DIGIT*)? ~ (^"e" ~ int)? }""",
     """num = @{ (int ~ ("." ~ ASCII_DIGIT*)? | ("+" | "-")? ~ "." ~ ASCII_DIGIT*) ~ (^"e" ~ int)? }"""))
ref("num-accepts-leading-dot-fraction", ["C19", "C05"], "the grammar also accepts `.5` (digits required after the dot)",
    ("src/calculator/grammar.pest", """num = @{ int ~ ("." ~ ASCII_DIGIT*)? ~ (^"e" ~ int)? }""",
     """num = @{ (int ~ ("." ~ ASCII_DIGIT*)? | ("+" | "-")? ~ "." ~ ASCII_DIGIT+) ~ (^"e" ~ int)? }"""))
mut("C06", "pids-swap-remove", "R06-6|shell::Shell::remove_pid_from_job|order|swap_remove",
    "a finished pid is removed with swap_remove",
    (S, "x.pids.remove(i_pid);", "x.pids.swap_remove(i_pid);"))

mut("C09", "set-env-updates-shell-copy-first", "R09-5|shell::Shell::set_env|shell-map-write-unguarded",
    "set_env updates an existing shell variable in place before asking whether the name is exported",
    (S, """    pub fn set_env(&mut self, name: &str, value: &str) {
""", """    pub fn set_env(&mut self, name: &str, value: &str) {
        if let Some(v) = self.envs.get_mut(name) {
            *v = value.to_string();
            return;
        }
"""))
mut("C12", "basename-via-file-name", "R12-9|libs::path::basename|textual", "basename uses Path::file_name()",
    ("src/libs/path.rs", """    let mut pieces = path.rsplit('/');
    match pieces.next() {
        Some(p) => p.into(),
        None => path.into(),
    }""", """    match std::path::Path::new(path).file_name() {
        Some(p) => p.to_string_lossy(),
        None => path.into(),
    }"""))
ref("basename-rfind", ["C12"], "basename written with rfind('/')",
    ("src/libs/path.rs", """    let mut pieces = path.rsplit('/');
    match pieces.next() {
        Some(p) => p.into(),
        None => path.into(),
    }""", """    match path.rfind('/') {
        Some(i) => path[i + 1..].into(),
        None => path.into(),
    }"""))
mut("C08", "redirect-target-dup", "R08-6|tools::create_raw_fd_from_file|not-cloexec",
    "a target of the form &N yields dup(N)",
    (TL, """pub fn create_raw_fd_from_file(file_name: &str, append: bool) -> Result<i32, String> {
""", """pub fn create_raw_fd_from_file(file_name: &str, append: bool) -> Result<i32, String> {
    if file_name == "&2" {
        let fd = unsafe { libc::dup(2) };
        if fd >= 0 {
            return Ok(fd);
        }
    }
"""))

mut("C11", "capture-read-capped", "R11-10|core::run_single_program|read-to-eof#0",
    "the captured stdout is read through take(N)",
    (C, """                        let mut f = File::from_raw_fd(fds.0);
                        match f.read_to_string(&mut s_out) {""", """                        let f = File::from_raw_fd(fds.0);
                        match f.take(131072).read_to_string(&mut s_out) {"""))
ref("capture-read-bufreader", ["C11", "C08", "C02"], "the captured stdout is read through a BufReader",
    (C, """                        let mut f = File::from_raw_fd(fds.0);
                        match f.read_to_string(&mut s_out) {""", """                        let mut f = std::io::BufReader::new(File::from_raw_fd(fds.0));
                        match f.read_to_string(&mut s_out) {"""))

mut("C19", "empty-parentheses-accepted", "R19-6|grammar|infix-agreement", "the grammar accepts `( )`",
    ("src/calculator/grammar.pest", 'term = _{ num | "(" ~ expr ~ ")" }', 'term = _{ num | "(" ~ expr? ~ ")" }'))
mut("C19", "trailing-operator-accepted", "R19-6|grammar|infix-agreement", "the grammar accepts `1 +`",
    ("src/calculator/grammar.pest", "expr = { term ~ (operation ~ term)* }", "expr = { term ~ (operation ~ term?)* }"))

mut("C19", "caret-not-an-operator", "R19-7|tools::is_arithmetic|classification", "`2 ^ 3` is no longer classified as arithmetic",
    (TL, 'if !re_contains(line, r"\\+|\\-|\\*|/|\\^") {', 'if !re_contains(line, r"\\+|\\-|\\*|/") {'))
mut("C19", "classification-ends-anywhere", "R19-7|tools::is_arithmetic|classification", "the closing class of the line pattern admits `|`",
    (TL, 'r"^[ 0-9\\.\\(\\)\\+\\-\\*/\\^]+[\\.0-9 \\)]$"', 'r"^[ 0-9\\.\\(\\)\\+\\-\\*/\\^]+[\\.0-9 \\)|]$"'))

mut("C15", "result-list-cleared-per-line", "R15-7|scripting::run_exp|shrinks|cr_list",
    "run_exp clears its result list before appending each line's results",
    (SC, """            cr_list.append(&mut _cr_list);
            if let Some(last) = cr_list.last() {""", """            if !capture {
                cr_list.clear();
            }
            cr_list.append(&mut _cr_list);
            if let Some(last) = cr_list.last() {"""))
mut("C18", "busy-error-only-logged", "R18-5|history::add_raw|silent-failure",
    "a failing INSERT is only written to the log file",
    (H, """        Err(e) => println_stderr!("cicada: history: save error: {}", e),
    }
}

pub fn add(""", """        Err(_e) => {}
    }
}

pub fn add("""))
mut("C17", "assignment-head-via-is-env", "R17-4|name-shape|7a", "parse_line asks tools::is_env whether a word is an assignment head",
    (P, """                let is_an_env = libs::re::re_contains(&token, r"^[a-zA-Z0-9_]+=.*$");""",
     """                let is_an_env = tools::is_env(&token);"""))

mut("C02", "status-only-when-exited", "R02-5|jobc::wait_fg_job|status-write-narrowed",
    "the last stage's status is recorded only when it exited normally",
    (J, "        if is_a_fg_child && pid == *pid_last {", "        if is_a_fg_child && pid == *pid_last && ws.is_exited() {"))
mut("C06", "id-scan-bounded-by-len", "R06-7|shell::Shell::get_job_by_gid|scan-bounded-by-len",
    "get_job_by_gid stops scanning ids at jobs.len()",
    (S, """    pub fn get_job_by_gid(&self, gid: i32) -> Option<&types::Job> {
        if self.jobs.is_empty() {
            return None;
        }

        let mut i = 1;
        loop {
            if let Some(x) = self.jobs.get(&i) {
                if x.gid == gid {
                    return Some(x);
                }
            }

            i += 1;
            if i >= 65535 {""", """    pub fn get_job_by_gid(&self, gid: i32) -> Option<&types::Job> {
        if self.jobs.is_empty() {
            return None;
        }

        let mut i = 1;
        loop {
            if let Some(x) = self.jobs.get(&i) {
                if x.gid == gid {
                    return Some(x);
                }
            }

            i += 1;
            if i > self.jobs.len() as i32 {"""))

mut("C14", "for-word-whole-when-no-blank", "R14-10|scripting::get_for_result_from_init|whole-token-untagged",
    "an unquoted for-list token without a blank is taken whole, even when empty",
    (SC, """                if sep.is_empty() {
                    for x in token.split_whitespace() {""", """                if sep.is_empty() && token.contains(' ') {
                    for x in token.split_whitespace() {"""))
mut("C13", "command-word-reparsed", "R13-6|types::CommandLine::from_line|retokenized",
    "a backquote result in command position is tokenized again",
    (T, """        let envs = drain_env_tokens(&mut tokens);

        let mut background = false;""", """        let envs = drain_env_tokens(&mut tokens);
        if let Some((sep, word)) = tokens.first().cloned() {
            if sep == "`" && word.contains(' ') {
                let head = parsers::parser_line::parse_line(&word).tokens;
                tokens.splice(0..1, head);
            }
        }

        let mut background = false;"""))

mut("C16", "tag-escape-skipped-after-backslash", "R16-3|tools::wrap_sep_string|tag-escape-narrowed",
    "wrap_sep_string does not escape the quote character when the previous character is a backslash",
    (TL, """    let mut previous_subsep = 'N';
    for c in s.chars() {""", """    let mut previous_subsep = 'N';
    let mut previous = 'N';
    for c in s.chars() {"""),
    (TL, """        if c.to_string() == sep {
            _token.push('\\\\');
        }""", """        if c.to_string() == sep && previous != '\\\\' {
            _token.push('\\\\');
        }
        previous = c;"""))
mut("C17", "alias-lookup-none-skips-counter", "R17-5|shell::expand_alias|scan-counter",
    "an alias whose content is None leaves the position counter behind",
    (S, """        if let Some(value) = sh.get_alias_content(text) {
            buff.push((idx, value.clone()));
        }
""", """        let value = match sh.get_alias_content(text) {
            Some(v) => v,
            None => continue,
        };
        buff.push((idx, value.clone()));
"""))

mut("C04", "first-input-redirection-wins", "R04-8|types::Command::from_tokens|input-search-direction",
    "the `<` operand is searched from the back",
    (T, """            if let Some(idx) = tokens_new.iter().position(|x| x.0.is_empty() && x.1 == "<") {""",
     """            if let Some(idx) = tokens_new.iter().rposition(|x| x.0.is_empty() && x.1 == "<") {"""))
mut("C07", "bg-status-test-before-sigcont", "R07-6|builtins::bg::run|sigcont-before-any-return",
    "bg answers `already in background` before sending SIGCONT",
    ("src/builtins/bg.rs", """                unsafe {
                    libc::killpg(job.gid, libc::SIGCONT);
                    gid = job.gid;
                    if job.status == "Running" {
                        let info = format!("cicada: bg: job {} already in background", job.id);
                        print_stderr_with_capture(&info, &mut cr, cl, cmd, capture);
                        return cr;
                    }
                }""", """                gid = job.gid;
                if job.status == "Running" {
                    let info = format!("cicada: bg: job {} already in background", job.id);
                    print_stderr_with_capture(&info, &mut cr, cl, cmd, capture);
                    return cr;
                }
                unsafe {
                    libc::killpg(gid, libc::SIGCONT);
                }"""))

mut("C14", "condition-by-first-status", "R14-11|scripting::run_exp_test_br|condition-status",
    "the condition looks at the first result of its list",
    (SC, """            if let Some(last) = _cr_list.last() {
                if last.status == 0 {
                    test_pass = true;
                }
            }
            continue;""", """            if let Some(last) = _cr_list.first() {
                if last.status == 0 {
                    test_pass = true;
                }
            }
            continue;"""))
mut("C11", "glob-after-substitution", "R11-11|shell::do_expansion|after-substitution|expand_glob",
    "expand_glob moved behind do_command_substitution",
    (S, """    expand_glob(tokens);
    do_command_substitution(sh, tokens);
""", """    do_command_substitution(sh, tokens);
    expand_glob(tokens);
"""))

mut("C15", "script-status-from-first-result", "R15-1", "run_script returns the status of the first result",
    (SC, """    let cr_list = run_lines(sh, &text_new, args, false);
    if let Some(last) = cr_list.last() {""", """    let cr_list = run_lines(sh, &text_new, args, false);
    if let Some(last) = cr_list.first() {"""))
mut("C02", "status-of-first-pid", "R02-5", "wait_fg_job takes the first pid as the status-bearing one",
    (J, "    let pid_last = pids.last().unwrap();", "    let pid_last = pids.first().unwrap();"))
mut("C15", "exit-on-error-looks-at-first", "R15-3", "set -e tests the first result of the accumulated list",
    (SC, """            if let Some(last) = cr_list.last() {
                let status = last.status;""", """            if let Some(last) = cr_list.first() {
                let status = last.status;"""))

mut("C15", "set-func-keeps-first", "R15-9|shell::Shell::set_func|overwrite", "a second definition of a function is ignored",
    (S, "        self.funcs.insert(name.to_string(), value.to_string());",
     "        self.funcs.entry(name.to_string()).or_insert_with(|| value.to_string());"))
mut("C17", "add-alias-keeps-first", "R17-6|shell::Shell::add_alias|overwrite", "redefining an alias keeps the old value",
    (S, "        self.aliases.insert(name.to_string(), value.to_string());",
     "        self.aliases.entry(name.to_string()).or_insert_with(|| value.to_string());"))

mut("C04", "unmatched-redirect-word-dropped", "R04-9|parsers::parser_line::tokens_to_redirections|token-dropped",
    "a word with `>` that fits no spelling vanishes silently",
    (P, """        } else {
            return Err(String::from("redirection syntax error"));
        }
    }

    if to_be_continued {""", """        }
    }

    if to_be_continued {"""))

mut("C02", "child-keeps-sigquit-ignored", "R02-9|core::run_single_program|child-resets|SIGQUIT",
    "the child no longer resets SIGQUIT: Ctrl-\\ cannot end a job",
    ("src/core.rs", "                libc::signal(libc::SIGQUIT, libc::SIG_DFL);\n", ""))
mut("C07", "child-keeps-sigtstp-ignored", "R07-11|core::run_single_program|child-resets|SIGTSTP",
    "the child no longer resets SIGTSTP: Ctrl-Z does nothing",
    ("src/core.rs", "                libc::signal(libc::SIGTSTP, libc::SIG_DFL);\n", ""))
mut("C04", "redirect-loop-takes-two", "R04-10|core::run_single_program|take",
    "only the first two redirections of a command are applied",
    ("src/core.rs", "            for item in &cmd.redirects_to {", "            for item in cmd.redirects_to.iter().take(2) {"))
mut("C17", "alias-plain-word-shortcut", "R17-7|shell::expand_alias|retokenized",
    "a value without blanks replaces the word without being tokenized",
    ("src/shell.rs", """        let linfo = parsers::parser_line::parse_line(text);
        let tokens_ = linfo.tokens;
        tokens.remove(*i);""", """        if !text.contains(' ') {
            tokens[*i].1 = text.clone();
            continue;
        }
        let linfo = parsers::parser_line::parse_line(text);
        let tokens_ = linfo.tokens;
        tokens.remove(*i);"""))

mut("C12", "range-drops-literal-pieces", "R12-10|shell::expand_brace_range|context-kept",
    "the text before / between the ranges is lost again",
    (S, """                    result_new.push(format!("{}{}{}", head, literal, item));""",
     """                    let _ = literal;
                    result_new.push(format!("{}{}", head, item));"""))

# ------------------------------------------------------------------ more refactors
ref("history-params-vec", ["C18"], "bind the INSERT parameters through a params! style slice",
    (H, "    match conn.execute(&sql, [line.trim(), info.as_str()]) {",
     "    let bound: [&str; 2] = [line.trim(), info.as_str()];\n    match conn.execute(&sql, bound) {"))
ref("calc-match-order", ["C19", "C05"], "reorder the arms of the float evaluator",
    (CALC, '''            Rule::add => lhs + rhs,
            Rule::subtract => lhs - rhs,
            Rule::multiply => lhs * rhs,''', '''            Rule::multiply => lhs * rhs,
            Rule::add => lhs + rhs,
            Rule::subtract => lhs - rhs,'''))
ref("alias-rename-flag", ["C17", "C01", "C13"], "rename is_head",
    (S, '''    let mut is_head = true;
    for (sep, text) in tokens.iter() {
        if sep.is_empty() && text == "|" {
            is_head = true;
            idx += 1;
            continue;
        }
        if is_head && text == "xargs" {
            idx += 1;
            continue;
        }

        if !is_head || !sh.is_alias(text) {
            idx += 1;
            is_head = false;
            continue;
        }

        if let Some(value) = sh.get_alias_content(text) {
            buff.push((idx, value.clone()));
        }

        idx += 1;
        is_head = false;
    }''', '''    let mut at_cmd = true;
    for (sep, text) in tokens.iter() {
        if sep.is_empty() && text == "|" {
            at_cmd = true;
            idx += 1;
            continue;
        }
        if at_cmd && text == "xargs" {
            idx += 1;
            continue;
        }

        if !at_cmd || !sh.is_alias(text) {
            idx += 1;
            at_cmd = false;
            continue;
        }

        if let Some(value) = sh.get_alias_content(text) {
            buff.push((idx, value.clone()));
        }

        idx += 1;
        at_cmd = false;
    }'''))
ref("cd-match-to-iflet", ["C09"], "cd: match on set_current_dir rewritten as if let / else",
    ("src/builtins/cd.rs", '''    match env::set_current_dir(&dir_to) {
        Ok(_) => {
            sh.current_dir = dir_to.clone();
            if str_current_dir != dir_to {
                sh.previous_dir = str_current_dir.clone();
                env::set_var("PWD", &sh.current_dir);
            };
            cr.status = 0;
            cr
        }
        Err(e) => {
            let info = format!("cicada: cd: {}", e);
            print_stderr_with_capture(&info, &mut cr, cl, cmd, capture);
            cr
        }
    }''', '''    if let Err(e) = env::set_current_dir(&dir_to) {
        let info = format!("cicada: cd: {}", e);
        print_stderr_with_capture(&info, &mut cr, cl, cmd, capture);
        return cr;
    }
    sh.current_dir = dir_to.clone();
    if str_current_dir != dir_to {
        sh.previous_dir = str_current_dir.clone();
        env::set_var("PWD", &sh.current_dir);
    };
    cr.status = 0;
    cr'''))
ref("subst-comment-and-log", ["C10", "C11", "C12", "C13", "C14", "C15", "C16", "C17", "C06", "C09", "C18", "C19", "C20"],
    "extra log lines in shell.rs / scripting.rs (moves line numbers)",
    (S, '''pub fn do_expansion(sh: &mut Shell, tokens: &mut types::Tokens) {
    let line = parsers::parser_line::tokens_to_line(tokens);''', '''pub fn do_expansion(sh: &mut Shell, tokens: &mut types::Tokens) {
    log!("do_expansion: {} tokens", tokens.len());
    let line = parsers::parser_line::tokens_to_line(tokens);'''),
    (SC, '''    let mut cr_list = Vec::new();
    match parsers::locust::parse_lines(lines) {''', '''    log!("run_lines: {} bytes", lines.len());
    let mut cr_list = Vec::new();
    match parsers::locust::parse_lines(lines) {'''))

ref("extract-close-helper", ["C02", "C08"], "the two child-side closes after dup2 moved into a helper function",
    (C, '''            if idx_cmd < pipes_count {
                let fds = pipes[idx_cmd];
                libs::dup2(fds.1, 1);
                libs::close(fds.1);
                libs::close(fds.0);
            }
''', '''            if idx_cmd < pipes_count {
                let fds = pipes[idx_cmd];
                libs::dup2(fds.1, 1);
                close_pair(fds);
            }
'''),
    (C, '''fn try_run_builtin_in_subprocess(''', '''fn close_pair(fds: (RawFd, RawFd)) {
    libs::close(fds.1);
    libs::close(fds.0);
}

fn try_run_builtin_in_subprocess('''))

ref("word-start-nested-quote-if", ["C20", "C05"], "escaped_word_start: the quote open / close chain written as nested ifs",
    ("src/completers/mod.rs", """        if !with_quote && !found_bs && (c == '"' || c == '\\'') {
            with_quote = true;
            ch_quote = c;
        } else if with_quote && !found_bs && ch_quote == c {
            with_quote = false;
        }
""", """        if !found_bs {
            if with_quote {
                if ch_quote == c {
                    with_quote = false;
                }
            } else if c == '"' || c == '\\'' {
                ch_quote = c;
                with_quote = true;
            }
        }
"""))


ref("all-stopped-functional", ["C06", "C07"], "all_members_stopped written with iter().all()",
    ("src/types.rs", """        for pid in &self.pids {
            if !self.pids_stopped.contains(pid) {
                return false;
            }
        }
        true
    }
""", """        self.pids.iter().all(|pid| self.pids_stopped.contains(pid))
    }
"""))

ref("glob-pass-skipped-by-fresh-test", ["C12", "C11", "C13"], "expand_glob skipped when no token holds a * - tested on the tokens as they are then",
    (S, """    expand_brace(tokens);
    expand_glob(tokens);
    do_command_substitution(sh, tokens);""", """    expand_brace(tokens);
    let any_star = tokens.iter().any(|t| t.1.contains('*'));
    if any_star {
        expand_glob(tokens);
    }
    do_command_substitution(sh, tokens);"""))
mut("C12", "brace-passes-skipped-by-stale-test", "R12-11|shell::do_expansion|chain|expand_brace",
    "brace / glob passes skipped when the typed line has no { or *",
    (S, """    expand_alias(sh, tokens);
    expand_home(tokens);
    expand_env(sh, tokens);
    expand_brace(tokens);
    expand_glob(tokens);""", """    let worth = line.contains('{') || line.contains('*');
    expand_alias(sh, tokens);
    expand_home(tokens);
    expand_env(sh, tokens);
    if worth {
        expand_brace(tokens);
        expand_glob(tokens);
    }"""))

mut("C14", "run-lines-flat-fast-path", "R14-12|scripting::run_lines|always-parsed",
    "texts without a block opener are run line by line, unparsed",
    ("src/scripting.rs", """    let mut cr_list = Vec::new();
    match parsers::locust::parse_lines(lines) {""", """    let mut cr_list = Vec::new();
    if !lines.contains("if ") && !lines.contains("for ") && !lines.contains("while ") {
        for line in lines.lines() {
            cr_list.append(&mut execute::run_command_line(sh, line, true, capture));
        }
        return cr_list;
    }
    match parsers::locust::parse_lines(lines) {"""))
mut("C10", "whole-word-fast-path-local-first", "R10-4|shell::expand_one_env|precedence",
    "a word that is exactly $NAME is looked up in the shell map first",
    (S, """        buff.push((idx, expand_one_env(sh, token)));""", """        if let Some(name) = token.strip_prefix('$') {
            if !name.is_empty() && name.chars().all(|c| c.is_ascii_alphanumeric() || c == '_') {
                if let Some(v) = sh.get_env(name) {
                    buff.push((idx, v));
                    idx += 1;
                    continue;
                }
            }
        }
        buff.push((idx, expand_one_env(sh, token)));"""))

mut("C12", "group-returns-unshortened-rest", "R12-12|shell::brace_getgroup|closing-brace-consumed",
    "the comma-less group hands back the remainder with its closing brace still in it",
    (S, "            return Some((result, sss));", "            return Some((result, ss));"))

mut("C12", "tilde-any-suffix", "R12-13|shell::expand_home|tilde-forms", "~name gets the home directory spliced in front",
    (S, """        let ptn = r"^~(?P<tail>/.*)?$";""", """        let ptn = r"^~(?P<tail>.*)";"""))
ref("tilde-gate-in-code", ["C12", "C05"], "expand_home: the `~` / `~/` test written in code, pattern left wide",
    (S, """        if !sep.is_empty() || !text.starts_with("~") {
            idx += 1;
            continue;
        }

        let mut s: String = text.clone();""", """        if !sep.is_empty() || !text.starts_with("~") {
            idx += 1;
            continue;
        }
        if !(text == "~" || text.starts_with("~/")) {
            idx += 1;
            continue;
        }

        let mut s: String = text.clone();"""),
    (S, """        let ptn = r"^~(?P<tail>/.*)?$";""", """        let ptn = r"^~(?P<tail>.*)";"""))

mut("C12", "glob-curdir-prefix-lost", "R12-14|shell::expand_glob|curdir-prefix", "matches of ./pattern recorded as glob yields them",
    (S, """                                if item.starts_with("./") && !file_path.starts_with("./") {
                                    // glob drops the leading `./` of the pattern
                                    result.push(format!("./{}", file_path));
                                } else {
                                    result.push(file_path.to_string());
                                }""", """                                result.push(file_path.to_string());"""))
ref("glob-curdir-prefix-precomputed", ["C12", "C05", "C13"], "the ./ prefix computed once per pattern and prepended unconditionally",
    (S, """            let _basename = libs::path::basename(item);
            let show_hidden = _basename.starts_with(".*");
""", """            let _basename = libs::path::basename(item);
            let show_hidden = _basename.starts_with(".*");
            let lead = if item.starts_with("./") { "./" } else { "" };
"""),
    (S, """                                if item.starts_with("./") && !file_path.starts_with("./") {
                                    // glob drops the leading `./` of the pattern
                                    result.push(format!("./{}", file_path));
                                } else {
                                    result.push(file_path.to_string());
                                }""", """                                result.push(format!("{}{}", lead, file_path.trim_start_matches("./")));"""))

mut("C18", "vacuum-after-delete", "R18-6|builtins::history::delete_history_item|renumbers|vacuum",
    "the file is compacted after a delete: implicit rowids are renumbered",
    ("src/builtins/history.rs", """        Ok(_) => true,
        Err(e) => {
            log!("history: error when delete: {:?}", e);""", """        Ok(_) => {
            let _ = conn.execute_batch("VACUUM");
            true
        }
        Err(e) => {
            log!("history: error when delete: {:?}", e);"""))
mut("C15", "source-refuses-by-state", "R15-10|builtins::source::run|always-runs",
    "source skips a file whose name equals the script being run",
    ("src/builtins/source.rs", """    let status = scripting::run_script(sh, &args);""", """    if sh.get_env("CICADA_SOURCED").as_deref() == Some(args[1].as_str()) {
        return cr;
    }
    let status = scripting::run_script(sh, &args);"""))
mut("C01", "tokenizer-plain-line-split-whitespace", "R01-5|parsers::parser_line::parse_line|pred|is_whitespace",
    "lines without specials are split with split_whitespace",
    (P, """    let mut sep = String::new();
    // `sep_second` is for commands like this:""", """    if !line.contains(&['\\\\', '\\'', '"', '`', '$', '|', '(', ')', '#', '&', ';', '>', '<', '{', '*', '~', '='][..]) {
        return LineInfo::new(line.split_whitespace().map(|x| (String::new(), x.to_string())).collect());
    }
    let mut sep = String::new();
    // `sep_second` is for commands like this:"""))

mut("C10", "glue-without-delimiting", "R10-9|parsers::parser_line::parse_line|glue-after-quote|name-delimited",
    "text after a closing double quote is appended without delimiting a trailing $NAME",
    (P, """            } else if semi_ok && sep == "\\"" && i > 0 && line.chars().nth(i - 1) == Some('"') {
                // `"$FOO"bar`: the closing quote ended the variable name
                token = delimit_trailing_name(&token);
            }
""", """            }
"""))

mut("C11", "extractor-greedy-only", "R11-13|shell::do_command_substitution_for_dollar|one-at-a-time",
    "the command is picked with the widest match again",
    (S, """            let ptn_cmd = if libs::re::re_contains(&line, r"\\$\\([^()]+\\)") {
                r"\\$\\(([^()]+)\\)"
            } else {
                r"\\$\\((.+)\\)"
            };""", """            let ptn_cmd = r"\\$\\((.+)\\)";"""))
mut("C11", "substitution-stderr-dropped", "R11-14|shell::do_command_substitution_for_dollar|stderr-shown",
    "the captured stderr of $(...) is not passed on",
    (S, "            show_captured_stderr(&cmd_result);\n", ""))
mut("C11", "function-output-trimmed", "R11-15|core::try_run_func|output-exact",
    "the output of each command of a function body is trimmed",
    ("src/core.rs", "            stdout.push_str(&cr.stdout);", "            stdout.push_str(cr.stdout.trim());"))
mut("C11", "assignment-value-single-line", "R11-16|types::drain_env_tokens|multiline-value",
    "the assignment recogniser no longer accepts a newline in the value",
    (T, 'if !sep.is_empty() || !libs::re::re_contains(text, r"(?s)^([a-zA-Z0-9_]+)=(.*)$") {',
     'if !sep.is_empty() || !libs::re::re_contains(text, r"^([a-zA-Z0-9_]+)=(.*)$") {'))

mut("C17", "alias-listing-always-single-quotes", "R17-8|builtins::alias::show_alias_list|fixed-quote|single",
    "the listing wraps every value in single quotes again",
    ("src/builtins/alias.rs", """        let line = format!("alias {}={}", name, quote_alias_value(&value));""",
     """        let line = format!("alias {}='{}'", name, value);"""))

mut("C10", "rewriter-reapplied-while-gate-holds", "R10-1|shell::expand_env|rescan",
    "expand_env re-applies the rewriter to its own result again: values are scanned a second time, a self-reference hangs",
    (S, """        buff.push((idx, expand_one_env(sh, token)));""", """        let mut _token = token.clone();
        while env_in_token(&_token) {
            _token = expand_one_env(sh, &_token);
        }
        buff.push((idx, _token));"""))
mut("C05", "rewriter-reapplied-while-gate-holds", "R05-",
    "same edit, seen from C05 (self-referential value hangs)",
    (S, """        buff.push((idx, expand_one_env(sh, token)));""", """        let mut _token = token.clone();
        while env_in_token(&_token) {
            _token = expand_one_env(sh, &_token);
        }
        buff.push((idx, _token));"""))

mut("C16", "operator-after-quote-glued", "R16-5|parsers::parser_line::parse_line|operator-after-quote",
    "a ; or & right after a closing quote joins the quoted word again",
    (P, """        if semi_ok && (c == ';' || c == '&' || c == '>') {""", """        if semi_ok && c == '>' {"""))

mut("C04", "redirect-after-quote-glued", "R04-11|parsers::parser_line::parse_line|redirect-after-quote",
    "a > right after a closing quote joins the quoted word again",
    (P, """        if semi_ok && (c == ';' || c == '&' || c == '>') {""", """        if semi_ok && (c == ';' || c == '&') {"""))

mut("C16", "pipe-token-without-lookahead", "R16-6|parsers::parser_line::parse_line|single-pipe-lookahead",
    "one of the places that emit `|` loses its look-ahead for `||`",
    (P, """            } else if !met_parenthesis && sep_second.is_empty() && sep.is_empty() {
                if sep.is_empty() && !sep_made.is_empty() {
                    result.push((sep_made.to_string(), token));
                    sep_made = String::new();
                } else {
                    result.push((String::from(""), token));
                }
                // `a||b` written without blanks: one `||`, not two pipes
                if i + 1 < count_chars && line.chars().nth(i + 1) == Some('|') {
                    result.push((String::from(""), "||".to_string()));
                    skip_next = true;
                } else {
                    result.push((String::from(""), "|".to_string()));
                }""", """            } else if !met_parenthesis && sep_second.is_empty() && sep.is_empty() {
                if sep.is_empty() && !sep_made.is_empty() {
                    result.push((sep_made.to_string(), token));
                    sep_made = String::new();
                } else {
                    result.push((String::from(""), token));
                }
                result.push((String::from(""), "|".to_string()));"""))

mut("C06", "pop-cont-clears-map", "R06-8|signals::pop_cont_map|bulk|clear",
    "taking one `continued` event wipes the whole map",
    ("src/signals.rs", """pub fn pop_cont_map(pid: i32) -> bool {
    match CONT_MAP.try_lock() {
        Ok(mut m) => m.remove(&pid),""", """pub fn pop_cont_map(pid: i32) -> bool {
    match CONT_MAP.try_lock() {
        Ok(mut m) => {
            let hit = m.contains(&pid);
            m.clear();
            hit
        }"""))
mut("C14", "break-on-nonzero-status-in-loop", "R14-3|scripting::run_exp|flag-raised-otherwise",
    "a failing command inside a loop acts as break",
    ("src/scripting.rs", """                if status != 0 && sh.exit_on_error {
                    return (cr_list, false, false);
                }""", """                if status != 0 && sh.exit_on_error {
                    return (cr_list, false, false);
                }
                if status == 130 && in_loop {
                    return (cr_list, false, true);
                }"""))
mut("C01", "planner-refuses-incomplete-lines", "R01-6|types::CommandLine::from_line|reads-is_complete",
    "from_line refuses what the tokenizer calls incomplete",
    (T, """        let linfo = parsers::parser_line::parse_line(line);
        let mut tokens = linfo.tokens;
        shell::do_expansion(sh, &mut tokens);
        let envs = drain_env_tokens(&mut tokens);""", """        let linfo = parsers::parser_line::parse_line(line);
        if !linfo.is_complete {
            return Err(String::from("syntax error: unexpected end of line"));
        }
        let mut tokens = linfo.tokens;
        shell::do_expansion(sh, &mut tokens);
        let envs = drain_env_tokens(&mut tokens);"""))
mut("C12", "hidden-test-on-whole-path", "R12-15|shell::expand_glob|last-component",
    "the hidden-entry test looks at the whole match instead of its last component",
    (S, """                                if _basename.starts_with('.') && !show_hidden {""",
     """                                if file_path.starts_with('.') && !show_hidden {"""))

mut("C17", "alias-skipped-while-marked-in-use", "R17-9|shell::expand_alias|replacement-guard",
    "a head-of-stage alias is left alone when a shell-state test says so",
    (S, """        if !is_head || !sh.is_alias(text) {""", """        if !is_head || !sh.is_alias(text) || sh.previous_status == 130 {"""))
mut("C16", "renderer-doubles-backslashes", "R16-7|parsers::parser_line::tokens_to_line|untagged-backslash-doubled",
    "tokens_to_line writes every backslash of an untagged token twice",
    (P, """            result.push_str(&t.1);""", """            result.push_str(&t.1.replace('\\\\', "\\\\\\\\"));"""))
mut("C05", "calculator-abs-of-exponent", "R05-1|calculator::eval_int",
    "abs() on an i64 that can be i64::MIN",
    ("src/calculator/mod.rs", "Rule::power => lhs.wrapping_pow(rhs as u32),", "Rule::power => lhs.wrapping_pow(rhs.abs() as u32),"))

mut("C04", "builtin-precheck-only-warns", "R04-4|builtins::utils::_get_std_fds|err-dropped",
    "the dispatcher reports an unopenable target but runs the builtin anyway",
    (C, """                println_stderr!("cicada: {}: {}", &item.2, e);
                return Some(CommandResult::from_status(0, 1));""", """                println_stderr!("cicada: {}: {}", &item.2, e);"""))

for _p, _r in (("C08", "R08-5"), ("C04", "R04-7")):
    mut(_p, "child-closes-released-pipe-end", "%s|core::run_single_program|stale close" % _r,
        "the child closes pipes[idx-1].1 again: the number may be the here-string pipe's by then",
        (C, """                libs::dup2(fds_prev.0, 0);
                libs::close(fds_prev.0);
""", """                libs::dup2(fds_prev.0, 0);
                libs::close(fds_prev.0);
                libs::close(fds_prev.1);
"""))
