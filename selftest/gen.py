#!/usr/bin/env python3
"""Generate the self-validation patches from (file, old, new) edits against /repo's current tree.
Run after /repo changes:  python3 selftest/gen.py   (rewrites selftest/mutants/*.patch, refactors/*.patch)"""
import difflib
import os
import sys

HERE = os.path.dirname(os.path.abspath(__file__))
REPO = os.environ.get("VERIF_REPO", "/repo")
sys.path.insert(0, HERE)

from defs import MUTANTS, REFACTORS  # noqa: E402


def make_patch(edits):
    out = []
    byfile = {}
    for f, old, new in edits:
        byfile.setdefault(f, []).append((old, new))
    for f, lst in byfile.items():
        src = open(os.path.join(REPO, f)).read()
        dst = src
        for old, new in lst:
            if dst.count(old) != 1:
                raise ValueError("%s: pattern occurs %d times: %r" % (f, dst.count(old), old[:60]))
            dst = dst.replace(old, new)
        d = difflib.unified_diff(src.splitlines(True), dst.splitlines(True), "a/" + f, "b/" + f, n=3)
        out.append("".join(d))
    return "".join(out)


def main():
    for sub in ("mutants", "refactors"):
        d = os.path.join(HERE, sub)
        os.makedirs(d, exist_ok=True)
        for n in os.listdir(d):
            if n.endswith(".patch"):
                os.remove(os.path.join(d, n))
    bad = 0
    for m in MUTANTS:
        try:
            p = make_patch(m["edits"])
        except ValueError as e:
            print("SKIP mutant %s-%s: %s" % (m["prop"], m["name"], e))
            bad += 1
            continue
        with open(os.path.join(HERE, "mutants", "%s-%s.patch" % (m["prop"], m["name"])), "w") as fh:
            fh.write("# expect: %s\n# what: %s\n" % (m["expect"], m["what"]))
            fh.write(p)
    for r in REFACTORS:
        try:
            p = make_patch(r["edits"])
        except ValueError as e:
            print("SKIP refactor %s: %s" % (r["name"], e))
            bad += 1
            continue
        with open(os.path.join(HERE, "refactors", "%s.patch" % r["name"]), "w") as fh:
            fh.write("# props: %s\n# what: %s\n" % (",".join(r["props"]), r["what"]))
            fh.write(p)
    print("generated %d mutants, %d refactors, %d skipped" % (len(MUTANTS), len(REFACTORS), bad))


if __name__ == "__main__":
    main()
