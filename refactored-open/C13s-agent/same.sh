#!/bin/sh
# Runs ./target/debug/cicada on inputs where expansion results contain shell
# syntax characters; prints outputs, statuses and the files left behind.
ROOT=$(cd "$(dirname "$0")/.." && pwd)
BIN="$ROOT/target/debug/cicada"
W=$(mktemp -d /tmp/c13s-same.XXXXXX)
cd "$W" || exit 2
HOME="$W"; export HOME
unset XDG_CONFIG_HOME
n=0

run() {
    n=$((n + 1))
    rm -rf "$W/d"; mkdir "$W/d"; cd "$W/d" || exit 2
    : > 'a b.txt'; : > 'p|q.txt'; : > 'x;y.txt'; : > 'r>s.txt'; : > 'amp&.txt'
    : > '#h.txt'; : > plain.txt; echo input-data > in.txt
    printf '== %02d: %s\n' "$n" "$1"
    "$BIN" -c "$1" </dev/null >"$W/out" 2>&1
    rc=$?
    sed "s#$W#W#g" "$W/out"
    printf 'status=%s\n' "$rc"
    printf 'files:'; ls -A | sort | tr '\n' ','; printf '\n'
}

V='a | wc -c'; export V
S='x ; echo second'; export S
R='foo > made.txt'; export R
B='sleep 0 &'; export B
H='one # two'; export H
I='< in.txt'; export I
SP='two  words'; export SP
GT='>'; export GT
PIPE='|'; export PIPE
AMP='&'; export AMP

run 'echo $V'
run 'echo "$V"'
run 'echo $S'
run 'echo $R'
run 'echo "$R" tail'
run 'echo $B'
run 'echo $H'
run 'cat $I'
run 'echo a $GT out.txt'
run 'echo a $PIPE cat'
run 'touch bg.txt $AMP; sleep 0.3'
run 'echo $(echo "b | wc -c")'
run 'echo $(echo "c > sub.txt")'
run 'echo `echo "d ; echo e"`'
run 'echo pre`echo " > bq.txt"`post'
run 'echo "$(echo "f & g")"'
run 'echo *.txt'
run 'ls -1 *q.txt'
run 'echo r*.txt'
run 'printf "[%s]\n" $SP "$SP"'
run 'printf "[%s]\n" a*'
run 'echo hi > real.txt; cat real.txt'
run 'echo hi | cat | wc -l'
run 'cat < in.txt'
run 'cat <<< here-text'
run 'cat < in.txt <'
run 'cat <<< one < in.txt'
run '> only.txt'
run 'echo a | | cat'
run 'echo a |'
run 'echo a 2>&1 >both.txt; cat both.txt'
run 'echo a 3> fd.txt'
run 'FOO="k | l" sh -c "echo \$FOO"'
run 'echo "<" ">" "|" "&"'
run 'echo a > $GT'
run 'sleep 0 &'

cd /; rm -rf "$W"
