#!/bin/bash
# Runs ./target/debug/cicada on inputs exercising descriptor handling
# (pipelines, captures, redirects, here-strings, failures, fd exhaustion)
# and prints outputs and statuses. Run from the worktree root.
CICADA=./target/debug/cicada
TMP=$(mktemp -d /tmp/c08s-same.XXXXXX)
export HOME="$TMP/home"
mkdir -p "$HOME"
n=0

run() {
    n=$((n + 1))
    echo "=== case $n: $1" | sed "s#$TMP#TMP#g"
    "$CICADA" -c "$1" </dev/null >"$TMP/out" 2>"$TMP/err"
    st=$?
    echo "--- stdout"
    sed "s#$TMP#TMP#g" "$TMP/out"
    echo "--- stderr"
    sed "s#$TMP#TMP#g" "$TMP/err"
    echo "--- status $st"
}

runscript() {
    n=$((n + 1))
    echo "=== case $n (script):"
    printf '%s\n' "$1" | sed -e 's/^/    /' -e "s#$TMP#TMP#g"
    printf '%s\n' "$1" >"$TMP/script.sh"
    "$CICADA" "$TMP/script.sh" </dev/null >"$TMP/out" 2>"$TMP/err"
    st=$?
    echo "--- stdout"
    sed "s#$TMP#TMP#g" "$TMP/out"
    echo "--- stderr"
    sed "s#$TMP#TMP#g" "$TMP/err"
    echo "--- status $st"
}

# helper programs: list the descriptors a spawned program starts with, and
# the descriptors of the shell that spawned us
printf '#!/bin/sh\nexec ls /proc/self/fd\n' >"$TMP/fds"
printf '#!/bin/sh\necho shell-fds: $(ls /proc/$PPID/fd)\n' >"$TMP/pfds"
chmod +x "$TMP/fds" "$TMP/pfds"
FDS="$TMP/fds"
PFDS="$TMP/pfds"

run "echo hello"
run "$FDS"
run "$PFDS"
run "echo a | $FDS"
run "echo a | cat | cat | $FDS"
run "$FDS | cat | cat"
run "echo a | $FDS | cat"
run "echo a | cat | cat | cat | wc -l; $PFDS"
run "echo \"x \$(echo a | cat | $FDS) y\"; $PFDS"
run "echo \`$FDS\`"
run "$FDS > $TMP/r1.txt; cat $TMP/r1.txt; $PFDS"
run "$FDS >> $TMP/r1.txt 2>&1; cat $TMP/r1.txt"
run "cat <<< 'here string' | $FDS; $PFDS"
run "cat <<< 'here string'; cat < $TMP/r1.txt | wc -l; $PFDS"
run "nosuchcommand-c08 | cat; $PFDS"
run "echo a | nosuchcommand-c08 | cat; echo st=\$?; $PFDS"
run "cat < $TMP/does-not-exist; echo st=\$?; $PFDS"
run "echo a > /nonexistent-dir/x; echo st=\$?; $PFDS"
run "ls /nonexistent-c08 2>&1 | cat; ls /nonexistent-c08 1>&2; $PFDS"
run "echo builtin | cat; echo b2 > $TMP/b.txt; cat $TMP/b.txt; echo b3 1>&2; $PFDS"
run "A=\$(ls /nonexistent-c08); echo \"[\$A] \$?\"; B=\$(echo out; nosuch-c08); echo \"[\$B]\"; $PFDS"
run "history | cat | wc -c > /dev/null; alias | cat; $PFDS"
run "false | true; echo \$?; true | false; echo \$?; $PFDS"
run "1 + 2 * 3"
run "sleep 0 & "
runscript "ulimit -n 6
echo a | cat | cat | cat | cat
echo st=\$?
echo still-alive
ulimit -n 64
$PFDS"
runscript "ulimit -n 6
echo \"x \$(echo captured | cat) y\"
echo st=\$?
ulimit -n 8
echo \"x \$(echo captured | cat) y\"
echo st=\$?
ulimit -n 64
echo \"x \$(echo captured | cat) y\"
$PFDS"
runscript "ulimit -n 6
cat <<< 'hs' | cat
echo st=\$?
echo a | cat <<< 'hs2'
echo st=\$?
ulimit -n 10
echo \"[\$(echo a | cat <<< 'hs3')]\"
echo st=\$?
ulimit -n 64
$PFDS
cat <<< 'hs4' | cat
echo a | cat | $FDS"
runscript "ulimit -n 4
echo a | cat
echo st=\$?
echo \$(echo q)
echo st=\$?
ulimit -n 64
$PFDS"
runscript "function f() {
    echo in-f | cat
    $FDS
}
f
f | cat
echo \"\$(f)\"
$PFDS"

rm -rf "$TMP"
