#!/bin/sh
# run from the worktree root: prints output and status of cicada on inputs
# exercising parameter expansion.  `$$` output is normalised through a
# comparison done inside the shell itself (pids differ between runs).
SH=./target/debug/cicada
export SEED_A='plain'
export SEED_D='has $SEED_A and ${SEED_A} and $$ inside'
export SEED_SELF='$SEED_SELF'
export SEED_B='{a,b}}${'
export SEED_E=''
unset SEED_UNSET
n=0
run() {
    n=$((n + 1))
    printf '== %02d: %s\n' "$n" "$1"
    "$SH" -c "$1" 2>&1
    printf 'status=%s\n' "$?"
}
run 'echo $SEED_A'
run 'echo ${SEED_A}'
run 'echo pre$SEED_A/post pre${SEED_A}post [$SEED_E]'
run 'echo "dq $SEED_A ${SEED_A}x"'
run "echo 'sq \$SEED_A \${SEED_A} \$? \$\$'"
run 'echo [$SEED_UNSET] [${SEED_UNSET}] "[$SEED_UNSET]"'
run 'echo $SEED_D'
run 'echo "$SEED_D"'
run 'echo $SEED_SELF ${SEED_SELF} "$SEED_SELF"'
run 'echo $SEED_B "$SEED_B"'
run 'echo $?'
run 'false; echo $? ${?} "$?"'
run 'ls /nonexistent-seed-dir; echo st=$?'
run 'sh -c "exit 7"; echo $?x'
run 'echo $$ ${$} "$$" | grep -c "^[0-9]* [0-9]* [0-9]*$"'
run 'echo $1 $9 $ $- ${} ${1}'
run 'echo $SEED_A$SEED_A${SEED_A}$?'
run 'echo \$SEED_A'
run 'echo "\$SEED_A"'
run 'FOO=bar; echo $FOO ${FOO}z'
run 'FOO=$SEED_A; echo $FOO'
run 'FOO="x $SEED_D"; echo $FOO'
run "alias sa='echo \$SEED_A'; sa"
run 'V=$(echo $SEED_A); echo $V'
run 'V=`echo $SEED_A`; echo $V'
run 'echo $(echo $SEED_A) `echo ${SEED_A}`'
run "echo a | awk '{print \$NF}'"
run 'echo ${SEED_A }  ${ SEED_A} $SEED_A} {$SEED_A'
run 'echo $SEED_A_not $SEED_A-x ${SEED_A}_x'
run 'export SEED_N=new; echo $SEED_N; unset SEED_N; echo [$SEED_N]'
