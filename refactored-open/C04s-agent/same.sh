#!/bin/bash
# Runs ./target/debug/cicada on inputs exercising redirections (C04) and
# prints outputs and statuses. Run from the worktree root.
ROOT="$(cd "$(dirname "$0")/.." && pwd -P)"
CICADA="$ROOT/target/debug/cicada"
W=/tmp/c04s-same-work; rm -rf "$W"; mkdir -p "$W"
cd "$W" || exit 1
export HOME="$W"
n=0

run() {
    n=$((n + 1))
    echo "=== case $n: $1"
    rm -rf "$W"/* 2>/dev/null
    mkdir -p "$W/ro"
    "$CICADA" -c "$1" >"$W/.out" 2>"$W/.err" </dev/null
    echo "status: $?"
    echo "--- stdout"; cat "$W/.out"
    echo "--- stderr"; cat "$W/.err"
    for f in "$W"/*; do
        [ -f "$f" ] || continue
        echo "--- file $(basename "$f")"; cat "$f"
    done
}

runscript() {
    n=$((n + 1))
    echo "=== script $n:"
    rm -rf "$W"/* 2>/dev/null
    printf '%s\n' "$1" >"$W/.script.sh"
    sed 's/^/    | /' "$W/.script.sh"
    "$CICADA" "$W/.script.sh" >"$W/.out" 2>"$W/.err" </dev/null
    echo "status: $?"
    echo "--- stdout"; cat "$W/.out"
    echo "--- stderr"; cat "$W/.err"
    for f in "$W"/*; do
        [ -f "$f" ] || continue
        echo "--- file $(basename "$f")"; cat "$f"
    done
}

run 'echo hello > a.txt'
run 'echo one > a.txt; echo two >> a.txt; echo three >>a.txt'
run 'echo one > a.txt; echo two > a.txt'
run 'echo hi >a.txt>b.txt'
run 'ls nonexist-zz 2> e.txt'
run 'ls nonexist-zz 2>> e.txt; ls nonexist-yy 2>>e.txt'
run 'ls nonexist-zz > o.txt 2>&1'
run 'ls nonexist-zz 2>&1 > o.txt'
run 'ls nonexist-zz 2>&1>o.txt'
run 'echo to-err 1>&2'
run 'echo to-err 1>&2 2> e.txt'
run 'echo to-err 2> e.txt 1>&2'
run 'sh -c "echo out; echo err 1>&2" 2>e.txt>o.txt'
run 'sh -c "echo out; echo err 1>&2" 1> o.txt 2> e.txt'
run 'echo abc > in.txt; cat < in.txt'
run 'cat < nonexist-in.txt; echo after $?'
run 'cat <<< hello'
run 'cat <<< "two words" | wc -w'
run 'echo abc > in.txt; cat < in.txt > out.txt; echo done'
run 'echo foo > /nonexistent-dir/x.txt; echo status $?'
run 'alias foo=bar > /nonexistent-dir/x.txt; echo status $?; alias'
run 'alias foo=bar; alias > al.txt; echo shown'
run 'alias foo=bar; alias > a1.txt > a2.txt >> a3.txt'
run 'cd /nonexistent-zz 2> e.txt; echo status $?'
run 'cd /nonexistent-zz 2>&1 > o.txt; echo status $?'
run 'cd /nonexistent-zz > o.txt 2>&1; echo status $?'
run 'alias nosuch-alias 1>&2 2>e.txt; echo status $?'
run 'echo x 3> f.txt; echo status $?'
run 'echo x 3>f.txt; echo status $?'
run 'echo x >&3; echo status $?'
run 'echo x > &1; echo status $?'
run 'echo x >; echo status $?'
run 'echo x 2>; echo status $?'
run 'echo a | cat > p.txt | cat; echo b | cat'
run 'echo first > f.txt | cat; echo second'
run 'ls nonexist-zz 2>&1 | cat > piped.txt'
run 'echo foo> g.txt; echo bar >"h i.txt"; echo 2> j.txt'
run 'echo a>b>c >>d'
run 'echo x >> ro/../ro/k.txt 2>>e.txt; echo $(echo sub > s.txt; cat s.txt)'
run 'alias foo=bar; alias | cat > q.txt; alias foo 2>&1 | cat'
runscript 'echo in script > s1.txt
cat < s1.txt >> s2.txt
cat <<< $HOME/x > s3.txt
history -h 2> e.txt > o.txt
echo "status $?"
export FOO=1 > /nonexistent-dir/y
echo "status $?"
echo still on terminal'

rm -rf "$W"
