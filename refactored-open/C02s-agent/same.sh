#!/bin/bash
# Runs ./target/debug/cicada on inputs exercising pipelines (C02) and prints
# outputs and statuses. Run from the worktree root.
CICADA="./target/debug/cicada"
unset CICADA_ENABLE_SIG_HANDLER
T=/tmp/c02s-same.d; rm -rf "$T"; mkdir -p "$T"
printf 'kill -$1 $$\n' > "$T/killme.sh"
K="sh $T/killme.sh"
n=0
run() {
    n=$((n + 1))
    echo "=== case $n: $1"
    timeout 20 $CICADA -c "$1" 2>&1 < /dev/null
    echo "--- status: $?"
}
runscript() {
    n=$((n + 1))
    echo "=== case $n (script):"
    printf '%s\n' "$1" > "$T/s.sh"
    cat "$T/s.sh"
    echo "--- output:"
    timeout 20 $CICADA "$T/s.sh" 2>&1 < /dev/null
    echo "--- status: $?"
}

run 'echo hi | wc -l'
run 'echo hello world | cat | cat | cat | wc -c'
run 'seq 1 20000 | wc -l'
run 'seq 1 100000 | head -n 3'
run 'yes | head -n 2'
run 'head -c 300000 /dev/zero | cat | wc -c'
run 'true | false'
run 'false | true'
run 'sh -c "exit 3" | sh -c "exit 7"'
run 'sh -c "sleep 0.3; exit 5" | sh -c "exit 9"'
run 'sh -c "exit 5" | sh -c "sleep 0.3; exit 9"'
run "echo a | $K TERM"
run "echo a | $K KILL"
run "$K KILL | cat"
run 'echo foo | nosuchcommand-c02s'
run 'nosuchcommand-c02s | wc -c'
run 'printf "b\na\nc\n" | sort | head -n 2 | tr a-z A-Z'
run 'echo abc | cat <<< here'
run 'cat <<< first | tr a-z A-Z | cat'
run 'echo one | cat <<< two | cat <<< three'
run 'ls /nonexistent-c02s 2>&1 | wc -l'
run 'sh -c "echo out; echo err >&2" 2>&1 | sort'
run 'echo abc | cat > '"$T"'/out.txt'
run 'cat '"$T"'/out.txt | wc -c'
run 'cat < '"$T"'/out.txt | tr b X'
run 'echo x | cat > /nonexistent-dir-c02s/f | wc -c'
run 'echo "got $(echo a b c | wc -w) words"'
run 'echo "n=$(seq 1 5000 | tail -n 1 | cat)"'
run 'echo `printf "x\ny\n" | wc -l`'
run 'echo builtin-out | cat; alias | wc -c | cat > /dev/null'
run 'export FOO=1 | cat; echo [$FOO]'
run 'echo a | exit 4'
run 'exit 4 | echo after'
run 'FOO=bar printenv FOO | cat'
run 'sleep 0.2 | sleep 0.1 | echo done'
run '1 + 2 | cat'
runscript 'echo a | cat
echo st=$?
false | true
echo st=$?
true | false
echo st=$?
sh -c "exit 42" | sh -c "cat; exit 17"
echo st=$?
x=$(echo one two | wc -w)
echo x=$x st=$?
function f() {
    echo in-f $1 | tr a-z A-Z
}
f arg | cat
f arg
echo st=$?
if echo yes | grep -q yes
    echo matched
fi
if echo yes | grep -q no
    echo wrong
else
    echo notmatched
fi
echo a | sh /tmp/c02s-same.d/killme.sh INT
echo st=$?
sleep 0.2 | cat &
echo bg-st=$?
seq 1 3 | while read l; do echo L$l; done
echo end'
export CICADA_ENABLE_SIG_HANDLER=0
run 'sh -c "sleep 0.2; exit 2" | sh -c "exit 6"'
run 'seq 1 50000 | sort -rn | head -n 1'
rm -rf "$T"
