// mirfacts: a rustc wrapper (RUSTC_WORKSPACE_WRAPPER) that compiles exactly as
// rustc would and, for the crates named in MIRFACTS_CRATE (default "cicada"),
// dumps the type-checked program as JSON facts after analysis:
// MIR bodies (functions, closures, promoteds) with resolved callees, constants,
// debug-info names, spans / macro-expansion info, ADT tables.
//
// Output: $MIRFACTS_OUT/facts.<crate_type>.json, written with a single write.
#![feature(rustc_private)]
#![allow(clippy::all)]

extern crate rustc_abi;
extern crate rustc_driver;
extern crate rustc_hir;
extern crate rustc_interface;
extern crate rustc_middle;
extern crate rustc_session;
extern crate rustc_span;

use rustc_driver::Compilation;
use rustc_hir::def::DefKind;
use rustc_hir::def_id::{DefId, LOCAL_CRATE};
use rustc_middle::mir::{
    self, AggregateKind, BasicBlockData, Body, Const, ConstValue, Operand, Place, ProjectionElem,
    Rvalue, StatementKind, TerminatorKind,
};
use rustc_middle::ty::{self, Instance, Ty, TyCtxt, TypingEnv};
use rustc_span::Span;
use std::fmt::Write as _;

struct Cb {
    out_dir: String,
    crate_type: String,
    nonce: String,
}

fn esc(s: &str) -> String {
    let mut o = String::with_capacity(s.len() + 2);
    o.push('"');
    for c in s.chars() {
        match c {
            '"' => o.push_str("\\\""),
            '\\' => o.push_str("\\\\"),
            '\n' => o.push_str("\\n"),
            '\r' => o.push_str("\\r"),
            '\t' => o.push_str("\\t"),
            c if (c as u32) < 0x20 => {
                let _ = write!(o, "\\u{:04x}", c as u32);
            }
            c => o.push(c),
        }
    }
    o.push('"');
    o
}

fn ty_str<'tcx>(t: Ty<'tcx>) -> String {
    ty::print::with_no_trimmed_paths!(format!("{}", t))
}

fn def_path<'tcx>(tcx: TyCtxt<'tcx>, d: DefId) -> String {
    ty::print::with_no_trimmed_paths!(tcx.def_path_str(d))
}

struct Dumper<'tcx> {
    tcx: TyCtxt<'tcx>,
    out: String,
}

impl<'tcx> Dumper<'tcx> {
    fn span_json(&self, sp: Span) -> String {
        let sm = self.tcx.sess.source_map();
        // the call-site in user code (outermost expansion), for humans
        let root = sp.source_callsite();
        let lo = sm.lookup_char_pos(root.lo());
        let hi = sm.lookup_char_pos(root.hi());
        let file = match &lo.file.name {
            rustc_span::FileName::Real(r) => {
                format!("{}", r.path(rustc_span::RemapPathScopeComponents::DIAGNOSTICS).display())
            }
            other => format!("{:?}", other),
        };
        let mut macros: Vec<String> = Vec::new();
        if sp.from_expansion() {
            for ex in sp.macro_backtrace() {
                match ex.kind {
                    rustc_span::ExpnKind::Macro(k, name) => {
                        macros.push(format!("{:?}:{}", k, name));
                    }
                    rustc_span::ExpnKind::Desugaring(d) => {
                        macros.push(format!("desugar:{:?}", d));
                    }
                    _ => macros.push("other".to_string()),
                }
            }
        }
        let mut s = String::new();
        let _ = write!(
            s,
            "{{\"file\":{},\"line\":{},\"col\":{},\"eline\":{},\"exp\":{},\"macros\":[",
            esc(&file),
            lo.line,
            lo.col.0 + 1,
            hi.line,
            sp.from_expansion()
        );
        for (i, m) in macros.iter().enumerate() {
            if i > 0 {
                s.push(',');
            }
            s.push_str(&esc(m));
        }
        s.push_str("]}");
        s
    }

    fn place_ty(&self, body: &Body<'tcx>, p: &Place<'tcx>) -> Ty<'tcx> {
        p.ty(&body.local_decls, self.tcx).ty
    }

    fn place_json(&self, body: &Body<'tcx>, p: &Place<'tcx>) -> String {
        let mut s = String::new();
        let _ = write!(s, "{{\"l\":{},\"p\":[", p.local.as_usize());
        let mut cur = mir::PlaceTy::from_ty(body.local_decls[p.local].ty);
        for (i, elem) in p.projection.iter().enumerate() {
            if i > 0 {
                s.push(',');
            }
            match elem {
                ProjectionElem::Deref => s.push_str("\"deref\""),
                ProjectionElem::Field(f, _) => {
                    let name = match cur.ty.kind() {
                        ty::Adt(adt, _) => {
                            let v = match cur.variant_index {
                                Some(v) => adt.variant(v),
                                None => adt.non_enum_variant(),
                            };
                            v.fields.get(f).map(|fd| fd.name.to_string()).unwrap_or_default()
                        }
                        _ => String::new(),
                    };
                    let _ = write!(
                        s,
                        "{{\"f\":{},\"name\":{},\"bty\":{}}}",
                        f.as_usize(),
                        esc(&name),
                        esc(&ty_str(cur.ty))
                    );
                }
                ProjectionElem::Index(l) => {
                    let _ = write!(s, "{{\"idx\":{}}}", l.as_usize());
                }
                ProjectionElem::ConstantIndex { offset, from_end, .. } => {
                    let _ = write!(s, "{{\"cidx\":{},\"from_end\":{}}}", offset, from_end);
                }
                ProjectionElem::Subslice { from, to, from_end } => {
                    let _ = write!(
                        s,
                        "{{\"subslice\":[{},{}],\"from_end\":{}}}",
                        from, to, from_end
                    );
                }
                ProjectionElem::Downcast(name, vi) => {
                    let n = name.map(|n| n.to_string()).unwrap_or_default();
                    let _ = write!(s, "{{\"downcast\":{},\"vi\":{}}}", esc(&n), vi.as_usize());
                }
                _ => s.push_str("\"opaque\""),
            }
            cur = cur.projection_ty(self.tcx, elem);
        }
        let _ = write!(s, "],\"ty\":{}}}", esc(&ty_str(cur.ty)));
        s
    }

    fn const_json(&self, c: &mir::ConstOperand<'tcx>) -> String {
        let ty = c.const_.ty();
        let tys = ty_str(ty);
        // function items
        if let ty::FnDef(d, args) = ty.kind() {
            return self.fn_json(*d, args);
        }
        if let ty::Closure(d, _) = ty.kind() {
            return format!("{{\"k\":\"closure\",\"path\":{}}}", esc(&def_path(self.tcx, *d)));
        }
        match c.const_ {
            Const::Unevaluated(uv, _) => {
                if let Some(p) = uv.promoted {
                    return format!(
                        "{{\"k\":\"promoted\",\"def\":{},\"idx\":{},\"ty\":{}}}",
                        esc(&def_path(self.tcx, uv.def)),
                        p.as_usize(),
                        esc(&tys)
                    );
                }
                // named constant / static ref: try to evaluate
                let env = TypingEnv::fully_monomorphized();
                if let Ok(v) = self.tcx.const_eval_resolve(env, uv, c.span) {
                    if let Some(s) = self.value_json(v, ty) {
                        return format!(
                            "{{\"k\":\"val\",\"ty\":{},\"v\":{},\"def\":{}}}",
                            esc(&tys),
                            s,
                            esc(&def_path(self.tcx, uv.def))
                        );
                    }
                }
                format!(
                    "{{\"k\":\"unevaluated\",\"def\":{},\"ty\":{}}}",
                    esc(&def_path(self.tcx, uv.def)),
                    esc(&tys)
                )
            }
            Const::Val(v, ty) => match self.value_json(v, ty) {
                Some(s) => format!("{{\"k\":\"val\",\"ty\":{},\"v\":{}}}", esc(&tys), s),
                None => format!("{{\"k\":\"other\",\"ty\":{}}}", esc(&tys)),
            },
            Const::Ty(_, ct) => {
                if let Some(leaf) = ct.try_to_leaf() {
                    format!(
                        "{{\"k\":\"val\",\"ty\":{},\"v\":{}}}",
                        esc(&tys),
                        self.scalar_int_json(leaf, ty)
                    )
                } else if let Some(bytes) = ct.try_to_value().and_then(|v| v.try_to_raw_bytes(self.tcx)) {
                    // string patterns of a `match` (`"&&" => ..`) are type-level constants with a byte valtree
                    match std::str::from_utf8(bytes) {
                        Ok(st) => format!("{{\"k\":\"val\",\"ty\":{},\"v\":{{\"str\":{}}}}}", esc(&tys), esc(st)),
                        Err(_) => format!("{{\"k\":\"other\",\"ty\":{}}}", esc(&tys)),
                    }
                } else {
                    format!("{{\"k\":\"other\",\"ty\":{}}}", esc(&tys))
                }
            }
        }
    }

    fn scalar_int_json(&self, si: ty::ScalarInt, ty: Ty<'tcx>) -> String {
        match ty.kind() {
            ty::Bool => {
                if si.to_uint(si.size()) != 0 { "true".into() } else { "false".into() }
            }
            ty::Char => {
                let v = si.to_uint(si.size()) as u32;
                match char::from_u32(v) {
                    Some(c) => format!("{{\"char\":{}}}", esc(&c.to_string())),
                    None => format!("{}", v),
                }
            }
            ty::Int(_) => format!("{}", si.to_int(si.size())),
            ty::Uint(_) => format!("{}", si.to_uint(si.size())),
            _ => format!("{}", si.to_uint(si.size())),
        }
    }

    fn value_json(&self, v: ConstValue, ty: Ty<'tcx>) -> Option<String> {
        match v {
            ConstValue::Scalar(mir::interpret::Scalar::Int(si)) => {
                Some(self.scalar_int_json(si, ty))
            }
            ConstValue::ZeroSized => Some("\"zst\"".to_string()),
            ConstValue::Scalar(mir::interpret::Scalar::Ptr(ptr, _)) => {
                // &[u8; N] byte-string constants (b"\n", format_args! templates)
                if let ty::Ref(_, inner, _) = ty.kind() {
                    if let ty::Array(elem, len) = inner.kind() {
                        if *elem == self.tcx.types.u8 {
                            if let Some(n) = len.try_to_target_usize(self.tcx) {
                                let (prov, offset) = ptr.prov_and_relative_offset();
                                if let Some(rustc_middle::mir::interpret::GlobalAlloc::Memory(alloc)) =
                                    self.tcx.try_get_global_alloc(prov.alloc_id())
                                {
                                    let start = offset.bytes() as usize;
                                    let end = start + n as usize;
                                    let a = alloc.inner();
                                    if end <= a.len() {
                                        let bytes = a.inspect_with_uninit_and_ptr_outside_interpreter(start..end);
                                        let mut o = String::from("{\"bytes\":[");
                                        for (i, b) in bytes.iter().enumerate() {
                                            if i > 0 {
                                                o.push(',');
                                            }
                                            let _ = write!(o, "{}", b);
                                        }
                                        o.push_str("]}");
                                        return Some(o);
                                    }
                                }
                            }
                        }
                    }
                }
                None
            }
            ConstValue::Slice { .. } => {
                if let Some(bytes) = v.try_get_slice_bytes_for_diagnostics(self.tcx) {
                    match std::str::from_utf8(bytes) {
                        Ok(s) => Some(format!("{{\"str\":{}}}", esc(s))),
                        Err(_) => {
                            let mut o = String::from("{\"bytes\":[");
                            for (i, b) in bytes.iter().enumerate() {
                                if i > 0 {
                                    o.push(',');
                                }
                                let _ = write!(o, "{}", b);
                            }
                            o.push_str("]}");
                            Some(o)
                        }
                    }
                } else {
                    None
                }
            }
            _ => None,
        }
    }

    fn fn_json(&self, d: DefId, args: ty::GenericArgsRef<'tcx>) -> String {
        let tcx = self.tcx;
        let path = def_path(tcx, d);
        let mut resolved = path.clone();
        let mut rlocal = d.is_local();
        let mut rkind = "none";
        let env = TypingEnv::fully_monomorphized();
        // only try to resolve when the args are fully concrete
        let concrete = !args.iter().any(|a| {
            use rustc_middle::ty::TypeVisitableExt;
            a.has_param() || a.has_infer()
        });
        if concrete {
            if let Ok(Some(inst)) = Instance::try_resolve(tcx, env, d, args) {
                let rd = inst.def_id();
                resolved = def_path(tcx, rd);
                rlocal = rd.is_local();
                rkind = match inst.def {
                    ty::InstanceKind::Item(_) => "item",
                    ty::InstanceKind::Virtual(..) => "virtual",
                    ty::InstanceKind::ClosureOnceShim { .. } => "closure_once",
                    ty::InstanceKind::FnPtrShim(..) => "fnptr",
                    ty::InstanceKind::Intrinsic(_) => "intrinsic",
                    _ => "shim",
                };
            }
        }
        let mut s = String::new();
        let _ = write!(
            s,
            "{{\"k\":\"fn\",\"path\":{},\"resolved\":{},\"local\":{},\"rkind\":{},\"args\":[",
            esc(&path),
            esc(&resolved),
            rlocal,
            esc(rkind)
        );
        for (i, a) in args.iter().enumerate() {
            if i > 0 {
                s.push(',');
            }
            let t = ty::print::with_no_trimmed_paths!(format!("{}", a));
            s.push_str(&esc(&t));
        }
        s.push_str("]}");
        s
    }

    fn operand_json(&self, body: &Body<'tcx>, o: &Operand<'tcx>) -> String {
        match o {
            Operand::Copy(p) => format!("{{\"copy\":{}}}", self.place_json(body, p)),
            Operand::Move(p) => format!("{{\"move\":{}}}", self.place_json(body, p)),
            Operand::Constant(c) => format!("{{\"const\":{}}}", self.const_json(c)),
            #[allow(unreachable_patterns)]
            _ => "{\"other\":true}".to_string(),
        }
    }

    fn variants_json(&self, t: Ty<'tcx>) -> String {
        let mut s = String::from("[");
        if let ty::Adt(adt, _) = t.kind() {
            if adt.is_enum() {
                for (i, (vi, d)) in adt.discriminants(self.tcx).enumerate() {
                    if i > 0 {
                        s.push(',');
                    }
                    let _ = write!(
                        s,
                        "[{},{}]",
                        d.val,
                        esc(&adt.variant(vi).name.to_string())
                    );
                }
            }
        }
        s.push(']');
        s
    }

    fn rvalue_json(&self, body: &Body<'tcx>, rv: &Rvalue<'tcx>) -> String {
        match rv {
            Rvalue::Use(o, ..) => format!("{{\"k\":\"use\",\"op\":{}}}", self.operand_json(body, o)),
            Rvalue::Repeat(o, _) => {
                format!("{{\"k\":\"repeat\",\"op\":{}}}", self.operand_json(body, o))
            }
            Rvalue::Ref(_, bk, p) => format!(
                "{{\"k\":\"ref\",\"mut\":{},\"place\":{}}}",
                matches!(bk, mir::BorrowKind::Mut { .. }),
                self.place_json(body, p)
            ),
            Rvalue::RawPtr(_, p) => {
                format!("{{\"k\":\"rawptr\",\"place\":{}}}", self.place_json(body, p))
            }
            Rvalue::Cast(kind, o, t) => format!(
                "{{\"k\":\"cast\",\"kind\":{},\"op\":{},\"ty\":{}}}",
                esc(&format!("{:?}", kind)),
                self.operand_json(body, o),
                esc(&ty_str(*t))
            ),
            Rvalue::BinaryOp(op, ab) => format!(
                "{{\"k\":\"bin\",\"op\":{},\"a\":{},\"b\":{}}}",
                esc(&format!("{:?}", op)),
                self.operand_json(body, &ab.0),
                self.operand_json(body, &ab.1)
            ),
            Rvalue::UnaryOp(op, o) => format!(
                "{{\"k\":\"un\",\"op\":{},\"a\":{}}}",
                esc(&format!("{:?}", op)),
                self.operand_json(body, o)
            ),
            Rvalue::Discriminant(p) => {
                let t = self.place_ty(body, p);
                format!(
                    "{{\"k\":\"discr\",\"place\":{},\"variants\":{}}}",
                    self.place_json(body, p),
                    self.variants_json(t)
                )
            }
            Rvalue::Aggregate(kind, ops) => {
                let mut s = String::from("{\"k\":\"agg\",");
                match &**kind {
                    AggregateKind::Tuple => s.push_str("\"agg\":\"tuple\""),
                    AggregateKind::Array(_) => s.push_str("\"agg\":\"array\""),
                    AggregateKind::Adt(d, vi, _, _, _) => {
                        let adt = self.tcx.adt_def(*d);
                        let v = adt.variant(*vi);
                        let _ = write!(
                            s,
                            "\"agg\":\"adt\",\"adt\":{},\"variant\":{},\"fields\":[",
                            esc(&def_path(self.tcx, *d)),
                            esc(&v.name.to_string())
                        );
                        for (i, f) in v.fields.iter().enumerate() {
                            if i > 0 {
                                s.push(',');
                            }
                            s.push_str(&esc(&f.name.to_string()));
                        }
                        s.push(']');
                    }
                    AggregateKind::Closure(d, _) => {
                        let _ = write!(
                            s,
                            "\"agg\":\"closure\",\"path\":{}",
                            esc(&def_path(self.tcx, *d))
                        );
                    }
                    _ => s.push_str("\"agg\":\"other\""),
                }
                s.push_str(",\"ops\":[");
                for (i, o) in ops.iter().enumerate() {
                    if i > 0 {
                        s.push(',');
                    }
                    s.push_str(&self.operand_json(body, o));
                }
                s.push_str("]}");
                s
            }
            Rvalue::CopyForDeref(p) => {
                format!("{{\"k\":\"use\",\"op\":{{\"copy\":{}}}}}", self.place_json(body, p))
            }
            other => format!("{{\"k\":\"other\",\"dbg\":{}}}", esc(&format!("{:?}", other))),
        }
    }

    fn block_json(&self, body: &Body<'tcx>, bb: &BasicBlockData<'tcx>) -> String {
        let mut s = String::from("{\"stmts\":[");
        let mut first = true;
        for st in &bb.statements {
            let js = match &st.kind {
                StatementKind::Assign(b) => {
                    let (p, rv) = &**b;
                    Some(format!(
                        "{{\"k\":\"assign\",\"place\":{},\"rv\":{},\"span\":{}}}",
                        self.place_json(body, p),
                        self.rvalue_json(body, rv),
                        self.span_json(st.source_info.span)
                    ))
                }
                StatementKind::SetDiscriminant { place, variant_index } => Some(format!(
                    "{{\"k\":\"setdiscr\",\"place\":{},\"vi\":{}}}",
                    self.place_json(body, place),
                    variant_index.as_usize()
                )),
                _ => None,
            };
            if let Some(js) = js {
                if !first {
                    s.push(',');
                }
                first = false;
                s.push_str(&js);
            }
        }
        s.push_str("],\"cleanup\":");
        s.push_str(if bb.is_cleanup { "true" } else { "false" });
        s.push_str(",\"term\":");
        let term = bb.terminator();
        let sp = self.span_json(term.source_info.span);
        match &term.kind {
            TerminatorKind::Goto { target } => {
                let _ = write!(s, "{{\"k\":\"goto\",\"target\":{}", target.as_usize());
            }
            TerminatorKind::SwitchInt { discr, targets } => {
                let dty = discr.ty(&body.local_decls, self.tcx);
                let _ = write!(
                    s,
                    "{{\"k\":\"switch\",\"op\":{},\"ty\":{},\"targets\":[",
                    self.operand_json(body, discr),
                    esc(&ty_str(dty))
                );
                for (i, (v, t)) in targets.iter().enumerate() {
                    if i > 0 {
                        s.push(',');
                    }
                    let _ = write!(s, "[{},{}]", v, t.as_usize());
                }
                let _ = write!(s, "],\"otherwise\":{}", targets.otherwise().as_usize());
            }
            TerminatorKind::Return => s.push_str("{\"k\":\"return\""),
            TerminatorKind::Unreachable => s.push_str("{\"k\":\"unreachable\""),
            TerminatorKind::UnwindResume => s.push_str("{\"k\":\"resume\""),
            TerminatorKind::UnwindTerminate(_) => s.push_str("{\"k\":\"abort\""),
            TerminatorKind::Drop { place, target, .. } => {
                let _ = write!(
                    s,
                    "{{\"k\":\"drop\",\"place\":{},\"target\":{}",
                    self.place_json(body, place),
                    target.as_usize()
                );
            }
            TerminatorKind::Call { func, args, destination, target, .. } => {
                let _ = write!(s, "{{\"k\":\"call\",\"func\":{},\"args\":[", self.operand_json(body, func));
                for (i, a) in args.iter().enumerate() {
                    if i > 0 {
                        s.push(',');
                    }
                    s.push_str(&self.operand_json(body, &a.node));
                }
                let _ = write!(s, "],\"dest\":{},\"target\":", self.place_json(body, destination));
                match target {
                    Some(t) => {
                        let _ = write!(s, "{}", t.as_usize());
                    }
                    None => s.push_str("null"),
                }
            }
            TerminatorKind::TailCall { func, args, .. } => {
                let _ = write!(s, "{{\"k\":\"tailcall\",\"func\":{},\"args\":[", self.operand_json(body, func));
                for (i, a) in args.iter().enumerate() {
                    if i > 0 {
                        s.push(',');
                    }
                    s.push_str(&self.operand_json(body, &a.node));
                }
                s.push(']');
            }
            TerminatorKind::Assert { cond, expected, msg, target, .. } => {
                use rustc_middle::mir::AssertKind as AK;
                let (kind, extra): (String, Vec<String>) = match &**msg {
                    AK::BoundsCheck { len, index } => (
                        "bounds".into(),
                        vec![self.operand_json(body, len), self.operand_json(body, index)],
                    ),
                    AK::Overflow(op, a, b) => (
                        format!("overflow:{:?}", op),
                        vec![self.operand_json(body, a), self.operand_json(body, b)],
                    ),
                    AK::OverflowNeg(a) => ("overflow:Neg".into(), vec![self.operand_json(body, a)]),
                    AK::DivisionByZero(a) => ("div_zero".into(), vec![self.operand_json(body, a)]),
                    AK::RemainderByZero(a) => ("rem_zero".into(), vec![self.operand_json(body, a)]),
                    other => (format!("other:{:?}", std::mem::discriminant(other)), vec![]),
                };
                let _ = write!(
                    s,
                    "{{\"k\":\"assert\",\"cond\":{},\"expected\":{},\"kind\":{},\"ops\":[{}],\"target\":{}",
                    self.operand_json(body, cond),
                    expected,
                    esc(&kind),
                    extra.join(","),
                    target.as_usize()
                );
            }
            TerminatorKind::FalseEdge { real_target, .. } => {
                let _ = write!(s, "{{\"k\":\"goto\",\"target\":{}", real_target.as_usize());
            }
            TerminatorKind::FalseUnwind { real_target, .. } => {
                let _ = write!(s, "{{\"k\":\"goto\",\"target\":{}", real_target.as_usize());
            }
            other => {
                let _ = write!(s, "{{\"k\":\"other\",\"dbg\":{}", esc(&format!("{:?}", std::mem::discriminant(other))));
            }
        }
        let _ = write!(s, ",\"span\":{}}}}}", sp);
        s
    }

    fn body_json(&self, body: &Body<'tcx>, path: &str, kind: &str, parent: &str, def_span: Span, vis: &str) -> String {
        let mut s = String::new();
        let _ = write!(
            s,
            "{{\"path\":{},\"kind\":{},\"parent\":{},\"vis\":{},\"span\":{},\"arg_count\":{},\"locals\":[",
            esc(path),
            esc(kind),
            esc(parent),
            esc(vis),
            self.span_json(def_span),
            body.arg_count
        );
        for (i, ld) in body.local_decls.iter().enumerate() {
            if i > 0 {
                s.push(',');
            }
            let _ = write!(
                s,
                "{{\"ty\":{},\"mut\":{}}}",
                esc(&ty_str(ld.ty)),
                ld.mutability.is_mut()
            );
        }
        s.push_str("],\"debug\":[");
        let mut first = true;
        for vdi in &body.var_debug_info {
            if let mir::VarDebugInfoContents::Place(p) = &vdi.value {
                if !first {
                    s.push(',');
                }
                first = false;
                let _ = write!(
                    s,
                    "{{\"name\":{},\"place\":{}}}",
                    esc(&vdi.name.to_string()),
                    self.place_json(body, p)
                );
            }
        }
        s.push_str("],\"blocks\":[");
        for (i, bb) in body.basic_blocks.iter().enumerate() {
            if i > 0 {
                s.push(',');
            }
            s.push_str(&self.block_json(body, bb));
        }
        s.push_str("]}");
        s
    }

    fn is_derive_generated(&self, sp: Span) -> bool {
        if !sp.from_expansion() {
            return false;
        }
        for ex in sp.macro_backtrace() {
            if let rustc_span::ExpnKind::Macro(rustc_span::MacroKind::Derive, _) = ex.kind {
                return true;
            }
        }
        false
    }

    fn dump(&mut self, crate_type: &str, nonce: &str) {
        let tcx = self.tcx;
        let cname = tcx.crate_name(LOCAL_CRATE).to_string();
        let _ = write!(
            self.out,
            "{{\"crate\":{},\"crate_type\":{},\"nonce\":{},\"bodies\":[",
            esc(&cname),
            esc(crate_type),
            esc(nonce)
        );
        let mut first = true;
        let mut skipped_derive = 0usize;
        for ldid in tcx.hir_body_owners() {
            let did = ldid.to_def_id();
            let kind = tcx.def_kind(did);
            let def_span = tcx.def_span(did);
            if self.is_derive_generated(def_span) {
                skipped_derive += 1;
                continue;
            }
            let (kstr, body): (&str, &Body<'tcx>) = match kind {
                DefKind::Fn | DefKind::AssocFn => ("fn", tcx.optimized_mir(did)),
                DefKind::Closure => ("closure", tcx.optimized_mir(did)),
                DefKind::Const { .. } | DefKind::AssocConst { .. } | DefKind::Static { .. } => {
                    ("const", tcx.mir_for_ctfe(did))
                }
                _ => continue,
            };
            let path = def_path(tcx, did);
            let parent = match tcx.opt_parent(did) {
                Some(p) => def_path(tcx, p),
                None => String::new(),
            };
            let vis = match kind {
                DefKind::Fn | DefKind::AssocFn => {
                    if tcx.visibility(did).is_public() { "pub" } else { "priv" }
                }
                _ => "",
            };
            if !first {
                self.out.push(',');
            }
            first = false;
            let js = self.body_json(body, &path, kstr, &parent, def_span, vis);
            self.out.push_str(&js);
            // promoted bodies
            if matches!(kind, DefKind::Fn | DefKind::AssocFn | DefKind::Closure) {
                let proms = tcx.promoted_mir(did);
                for (pi, pb) in proms.iter_enumerated() {
                    let ppath = format!("{}::{{promoted#{}}}", path, pi.as_usize());
                    self.out.push(',');
                    let js = self.body_json(pb, &ppath, "promoted", &path, def_span, "");
                    self.out.push_str(&js);
                }
            }
        }
        let _ = write!(self.out, "],\"skipped_derive\":{},\"adts\":[", skipped_derive);
        // local ADTs
        let mut first = true;
        for id in tcx.hir_free_items() {
            let did = id.owner_id.to_def_id();
            let kind = tcx.def_kind(did);
            if !matches!(kind, DefKind::Struct | DefKind::Enum) {
                continue;
            }
            let adt = tcx.adt_def(did);
            if !first {
                self.out.push(',');
            }
            first = false;
            let _ = write!(
                self.out,
                "{{\"path\":{},\"enum\":{},\"variants\":[",
                esc(&def_path(tcx, did)),
                adt.is_enum()
            );
            for (i, v) in adt.variants().iter().enumerate() {
                if i > 0 {
                    self.out.push(',');
                }
                let _ = write!(self.out, "{{\"name\":{},\"fields\":[", esc(&v.name.to_string()));
                for (j, f) in v.fields.iter().enumerate() {
                    if j > 0 {
                        self.out.push(',');
                    }
                    let fty = tcx.type_of(f.did).instantiate_identity().skip_norm_wip();
                    let _ = write!(
                        self.out,
                        "{{\"name\":{},\"ty\":{}}}",
                        esc(&f.name.to_string()),
                        esc(&ty_str(fty))
                    );
                }
                self.out.push_str("]}");
            }
            self.out.push_str("]}");
        }
        self.out.push_str("]}");
    }
}

impl rustc_driver::Callbacks for Cb {
    fn after_analysis<'tcx>(
        &mut self,
        _compiler: &rustc_interface::interface::Compiler,
        tcx: TyCtxt<'tcx>,
    ) -> Compilation {
        let mut d = Dumper { tcx, out: String::with_capacity(8 << 20) };
        d.dump(&self.crate_type, &self.nonce);
        let path = format!("{}/facts.{}.json", self.out_dir, self.crate_type);
        let tmp = format!("{}.tmp.{}", path, std::process::id());
        std::fs::write(&tmp, d.out.as_bytes()).expect("mirfacts: cannot write facts");
        std::fs::rename(&tmp, &path).expect("mirfacts: cannot rename facts");
        Compilation::Continue
    }
}

struct NoCb;
impl rustc_driver::Callbacks for NoCb {}

fn main() {
    let mut args: Vec<String> = std::env::args().collect();
    // as RUSTC_WORKSPACE_WRAPPER: argv[1] is the path of the real rustc
    if args.len() > 1 && (args[1].ends_with("rustc") || args[1].contains("/rustc")) {
        args.remove(1);
    }
    let want = std::env::var("MIRFACTS_CRATE").unwrap_or_else(|_| "cicada".to_string());
    let mut crate_name = String::new();
    let mut crate_type = String::new();
    let mut is_test = false;
    let mut i = 0;
    while i < args.len() {
        if args[i] == "--crate-name" && i + 1 < args.len() {
            crate_name = args[i + 1].clone();
        }
        if args[i] == "--crate-type" && i + 1 < args.len() {
            crate_type = args[i + 1].clone();
        }
        if args[i] == "--test" {
            is_test = true;
        }
        i += 1;
    }
    let out_dir = std::env::var("MIRFACTS_OUT").unwrap_or_default();
    if crate_name == want && !out_dir.is_empty() && !is_test {
        let nonce = std::env::var("MIRFACTS_NONCE").unwrap_or_default();
        let mut cb = Cb { out_dir, crate_type, nonce };
        rustc_driver::run_compiler(&args, &mut cb);
    } else {
        rustc_driver::run_compiler(&args, &mut NoCb);
    }
}
